"""The general comparator: observed executions of one generated parser (event log records) against
the reference model, plus the model-free invariants (trace balance, boundaries, tracer equality,
packrat bound).  Emits findings tagged by *kind*; property checks select the kinds they own."""
import rdebug
from gast import *
from model import Model, Drop
import model as model_mod


class Finding:
    __slots__ = ("kind", "msg", "expected", "observed")

    def __init__(self, kind, msg, expected=None, observed=None):
        self.kind = kind
        self.msg = msg
        self.expected = expected
        self.observed = observed

    def as_dict(self):
        return {"kind": self.kind, "msg": self.msg, "expected": self.expected, "observed": self.observed}


def spec_kind(spec_debug):
    """Debug(ParseErrorSpecifics) -> the model's attempt-kind tuple"""
    t = rdebug.parse(spec_debug)
    if t[0] == "ident":
        return {"ExpectedAnyCharacter": ("AnyChar",), "ExpectedEoi": ("Eoi",),
                "NegativeLookaheadFailed": ("NegLA",), "LeftRecursionSentinel": ("Sentinel",),
                "Other": ("Other",)}.get(t[1], ("Unknown", t[1]))
    if t[0] == "struct":
        n, f = t[1], t[2]
        if n == "ExpectedCharacter":
            return ("Char", f["c"][1])
        if n == "ExpectedCharacterRange":
            return ("Range", f["from"][1], f["to"][1])
        if n == "ExpectedString":
            return ("Str", f["s"][1])
        if n == "ExpectedCharacterClass":
            return ("Class", f["name"][1])
        if n == "CheckFunctionFailed":
            return ("Check", f["function_name"][1])
        if n == "ExternRuleFailed":
            return ("Extern", f["error_string"][1])
    return ("Unknown", spec_debug)


def strip_positions(t, acc):
    """returns tree without `position` fields; appends (struct name, range) to acc in pre-order"""
    k = t[0]
    if k == "struct":
        fields = {}
        for f, v in t[2].items():
            if f == "position" and v[0] == "range":
                acc.append((t[1], v[1], v[2]))
            else:
                fields[f] = strip_positions(v, acc)
        return ("struct", t[1], fields)
    if k == "call":
        return ("call", t[1], [strip_positions(x, acc) for x in t[2]])
    if k == "list":
        return ("list", [strip_positions(x, acc) for x in t[1]])
    return t


def tree_strings(t, out):
    k = t[0]
    if k == "struct":
        for v in t[2].values():
            tree_strings(v, out)
    elif k == "call":
        for x in t[2]:
            tree_strings(x, out)
    elif k == "list":
        for x in t[1]:
            tree_strings(x, out)
    elif k == "str":
        out.append(t[1])
    return out


def string_position_nodes(t, out):
    k = t[0]
    if k == "struct":
        f = t[2]
        if set(f) == {"string", "position"} and f["string"][0] == "str" and f["position"][0] == "range":
            out.append((t[1], f["string"][1], f["position"][1], f["position"][2]))
        for v in f.values():
            string_position_nodes(v, out)
    elif k == "call":
        for x in t[2]:
            string_position_nodes(x, out)
    elif k == "list":
        for x in t[1]:
            string_position_nodes(x, out)
    return out


def count_values(t):
    k = t[0]
    if k == "struct":
        return sum(count_values(v) for f, v in t[2].items() if f != "position") + (1 if not t[2] else 0)
    if k == "call":
        return sum(count_values(x) for x in t[2]) if t[1] == "Some" else 1 + sum(count_values(x) for x in t[2])
    if k == "list":
        return sum(count_values(x) for x in t[1])
    if k == "ident":
        return 0 if t[1] == "None" else 1
    return 1


def nested_invocations(events, n):
    """from the recording tracer's S/O/E/P/I stream build invocation records
    -> (list of dict(rule, q, ok, end, children, probes, cachehit, depth), balance_error or None)"""
    stack = []
    out = []
    for ev in events:
        t = ev[0]
        if t == "S":
            inv = {"rule": ev[1], "q": n - ev[2], "ok": None, "end": None, "children": 0, "probes": [],
                   "cachehit": False, "depth": len(stack), "errpos": None, "lrloops": 0, "ucalls": 0}
            if stack:
                stack[-1]["children"] += 1
            stack.append(inv)
            out.append(inv)
        elif t in ("O", "E"):
            if not stack:
                return out, "rule exit without a matching entry (depth would go negative)"
            inv = stack.pop()
            if t == "O":
                inv["ok"] = True
                inv["end"] = n - ev[1]
            else:
                inv["ok"] = False
                inv["errpos"] = ev[1]
                inv["errspec"] = ev[2]
        elif t == "P":
            if stack:
                stack[-1]["probes"].append((ev[1], n - ev[2]))
        elif t == "U":
            # a user function (check / extern / @char check) called directly from this invocation
            if stack:
                stack[-1]["ucalls"] += 1
        elif t == "I":
            if stack:
                if ev[1].startswith("Cache hit"):
                    stack[-1]["cachehit"] = True
                elif ev[1].startswith("Starting new left recursive loop"):
                    stack[-1]["lrloops"] += 1
    if stack:
        return out, "%d rule entries never got an exit" % len(stack)
    return out, None


class UnitInfo:
    """static facts about a grammar unit used by the comparator"""

    def __init__(self, g: Grammar, step_cap=20000):
        self.g = g
        self.types = check_types(g)
        self.model = Model(g, self.types, step_cap=step_cap)
        self.has_memo = any(r.kind == "rule" and r.has("memoize") for r in g.rules)
        self.has_lr = any(r.kind == "rule" and r.has("leftrec") for r in g.rules)
        self.lr_scc = set()
        for comp in left_recursive_cycles(g):
            self.lr_scc.update(comp)
        self.memo_rules = {r.name for r in g.rules if r.kind == "rule" and r.has("memoize") and not r.has("leftrec")}
        self.has_userfn = any((r.kind == "extern") or (r.kind in ("rule", "char") and r.checks()) for r in g.rules)
        self.lr_recursive_first = self._lr_recursive_first()
        # memo probe placed first in a rule's body by the generator: rule -> probe id
        self.own_probe = {}
        for r in g.rules:
            if r.kind == "rule" and len(r.body.alts) == 1 and r.body.alts[0].parts and isinstance(r.body.alts[0].parts[0], Ref):
                t = g.rule(r.body.alts[0].parts[0].rule)
                if t is not None and t.kind == "extern" and t.func[-1].startswith("probe_"):
                    self.own_probe[r.name] = int(t.func[-1].rstrip("c")[6:])
        self.boundaries = None

    def _lr_recursive_first(self):
        g = self.g
        nul = compute_nullable(g)
        for r in g.rules:
            if r.kind == "rule" and r.has("leftrec"):
                seen_base = False
                for alt in r.body.alts:
                    s = set()
                    left_calls(alt, g, nul, s)
                    # does this alternative left-reach r itself?
                    reach, todo = set(), list(s)
                    graph = left_call_graph(g, nul)
                    while todo:
                        x = todo.pop()
                        if x in reach:
                            continue
                        reach.add(x)
                        todo += list(graph.get(x, ()))
                    rec = r.name in reach
                    if rec and seen_base:
                        return False
                    if not rec:
                        seen_base = True
        return True


def compare_case(ui: UnitInfo, rule: str, inp: str, obs: dict, counters: dict):
    """obs: {mode: [record]} for one (grammar, rule, input).  Returns (findings, exp or None, facts)"""
    F = []
    facts = {}
    b = inp.encode("utf-8")
    n = len(b)
    bounds = set()
    off = 0
    for ch in inp:
        bounds.add(off)
        off += len(ch.encode("utf-8"))
    bounds.add(n)

    def cnt(k, d=1):
        counters[k] = counters.get(k, 0) + d

    recs = {m: obs[m][0] for m in obs if obs[m]}
    if not recs:
        cnt("harness_missing")
        return F, None, facts
    # ---- process-level outcomes
    for m, r in recs.items():
        res = r["result"]
        if res is None:
            cnt("harness_missing")
            continue
        if res[0] == "crash":
            F.append(Finding("crash", "process killed during the parse (mode %s, rc %s)" % (m, res[1:])))
        elif res[0] == "timeout":
            cnt("inconclusive_watchdog")
        elif res[0] == "panic":
            if "step budget exhausted" in res[2]:
                F.append(Finding("fuel", "logical step budget exhausted (mode %s): the parse does not terminate within the step budget derived from the reference evaluation (or its event log outgrew the cap)" % m, observed=res[2]))
            else:
                F.append(Finding("panic", "panic in mode %s at %s: %s" % (m, res[1], res[2]), observed=res[1] + ": " + res[2]))
    usable = {m: r for m, r in recs.items() if r["result"] is not None and r["result"][0] in ("ok", "err")}
    if not usable:
        return F, None, facts
    # ---- C19: tracing changes nothing
    if len(usable) >= 2:
        cnt("trace_eq_compared")
        ref_m = "noop" if "noop" in usable else sorted(usable)[0]
        for m, r in usable.items():
            if m == ref_m:
                continue
            if r["result"] != usable[ref_m]["result"]:
                F.append(Finding("trace_eq", "result under tracer '%s' differs from '%s'" % (m, ref_m),
                                 expected=list(usable[ref_m]["result"]), observed=list(r["result"])))
            if r["calls"] != usable[ref_m]["calls"]:
                F.append(Finding("trace_eq", "user-function calls under tracer '%s' differ from '%s'" % (m, ref_m),
                                 expected=len(usable[ref_m]["calls"]), observed=len(r["calls"])))
    for m in ("ind",):
        if m in recs and recs[m]["result"] is not None and recs[m]["result"][0] == "panic" and \
                ("noop" in usable):
            F.append(Finding("trace_eq", "IndentedTracer run panicked while the plain parse returned", observed=list(recs[m]["result"])))
    rec = recs.get("rec")
    invs = None
    if rec is not None and rec["result"] is not None and rec["result"][0] in ("ok", "err"):
        invs, bal = nested_invocations(rec["events"], n)
        cnt("trace_events", len(rec["events"]))
        cnt("trace_balance_checked")
        if bal:
            F.append(Finding("trace_balance", bal))
        for inv in invs:
            if inv["ok"] is None:
                continue
            if inv["ok"]:
                cnt("exit_ok")
            else:
                cnt("exit_err")
            if inv["cachehit"]:
                cnt("exit_cachehit")
            if inv["lrloops"]:
                cnt("exit_leftrec")
        # ---- C04: every exposed offset is a char boundary inside the input
        for inv in invs:
            for o in (inv["q"], inv["end"], inv["errpos"]):
                if o is not None:
                    cnt("offsets_checked")
                    if o not in bounds:
                        F.append(Finding("boundary", "offset %d used by rule %s is not a char boundary inside the input" % (o, inv["rule"]), observed=o))
    res0 = usable.get("noop") or usable.get("rec") or list(usable.values())[0]
    res = res0["result"]
    obs_tree = None
    if res[0] == "ok":
        try:
            obs_tree = rdebug.parse(res[1])
        except rdebug.DebugSyntax as e:
            cnt("harness_debug_syntax")
            obs_tree = None
        if obs_tree is not None:
            poss = []
            strip_positions(obs_tree, poss)
            for (nm, a, z) in poss:
                cnt("offsets_checked", 2)
                if a not in bounds or z not in bounds or a > z:
                    F.append(Finding("boundary", "position %d..%d of %s is not a valid span of the input" % (a, z, nm), observed=[a, z]))
            for (sname, sval, a0, z0) in string_position_nodes(obs_tree, []):
                cnt("stringpos_checked")
                if a0 in bounds and z0 in bounds and a0 <= z0 and b[a0:z0].decode("utf-8", "replace") != sval:
                    F.append(Finding("stringpos", "@string @position node %s: string %r is not the input sliced by its position %d..%d (%r)" %
                                     (sname, sval, a0, z0, b[a0:z0].decode("utf-8", "replace")), expected=b[a0:z0].decode("utf-8", "replace"), observed=sval))
            for s in tree_strings(obs_tree, []):
                cnt("strings_checked")
                if s not in inp:
                    F.append(Finding("substring", "string %r in the tree is not a substring of the input" % s, observed=s))
    else:
        cnt("offsets_checked")
        if res[1] not in bounds:
            F.append(Finding("boundary", "error position %d is not a char boundary inside the input" % res[1], observed=res[1]))
    # ---- memo bound (C06), model-free
    if invs is not None and ui.memo_rules:
        per = {}
        for inv in invs:
            if inv["rule"] in ui.memo_rules and inv["ok"] is not None:
                key = (inv["rule"], inv["q"])
                e = per.setdefault(key, [0, 0, 0, 0])
                e[0] += 1
                if inv["ucalls"] > 0:
                    e[3] += 1
                own = ui.own_probe.get(inv["rule"])
                if own is not None and inv["probes"]:
                    # only the rule's own probe (first element of its body) counts; probes of bodies pulled in with `>` have other ids
                    e[1] += len([p for p in inv["probes"] if p[0] == own])
                elif inv["children"] > 0 and not inv["cachehit"]:
                    e[2] += 1
        for key, (entries, probes, childeval, withcalls) in per.items():
            cnt("memo_pairs")
            if withcalls > 1:
                F.append(Finding("memo_bound", "user functions (checks/externs) of @memoize rule %s were invoked in %d separate attempts at offset %d within one parse (at most one attempt may run them; entries %d)" %
                                 (key[0], withcalls, key[1], entries), expected=1, observed=withcalls))
            if entries >= 2:
                cnt("memo_pairs_reentered")
                facts.setdefault("memo_reentered", []).append(key)
            if probes > 1 or childeval > 1 or (probes >= 1 and childeval >= 1 and False):
                F.append(Finding("memo_bound", "body of @memoize rule %s evaluated %d times at offset %d within one parse (entries %d)" %
                                 (key[0], max(probes, childeval), key[1], entries), expected=1, observed=max(probes, childeval)))
        facts["memo_body_evals"] = sum(max(p, c) for (_, p, c, _w) in per.values())
    # ---- the model
    try:
        exp = ui.model.parse(rule, inp)
    except Drop as d:
        cnt("model_drop:" + str(d)[:40])
        return F, None, facts
    except rdebug.Unsupported as d:
        cnt("model_drop:unsupported char")
        return F, None, facts
    except RecursionError:
        cnt("model_drop:recursion")
        return F, None, facts
    cnt("model_compared")
    for k, v in exp["counters"].items():
        if v:
            cnt("m_" + k, v)
    ok_obs = res[0] == "ok"
    if ok_obs != exp["ok"]:
        F.append(Finding("accept", "parse %s but the grammar read as a PEG %s" %
                         ("succeeded" if ok_obs else "failed", "fails" if ok_obs else "matches"),
                         expected="Ok" if exp["ok"] else "Err", observed=res[1] if ok_obs else list(res[1:])))
        return F, exp, facts
    # consumed bytes of the root + every traced invocation as a function (rule, entry) -> outcome
    if invs:
        root = invs[0]
        if exp["ok"] and root["ok"] and root["end"] != exp["end"]:
            F.append(Finding("consumed", "exported rule consumed %d bytes, PEG semantics gives %d" % (root["end"], exp["end"]),
                             expected=exp["end"], observed=root["end"]))
        fn = exp["fn"]
        side = None
        on_demand = 0
        for inv in invs:
            if inv["ok"] is None or inv["rule"] in ui.lr_scc:
                continue
            key = (inv["rule"], inv["q"])
            outs = fn.get(key)
            if outs is None:
                # evaluated by the implementation at a place the naive evaluation never reaches: judge on demand
                if ui.has_lr or ui.has_userfn:
                    continue
                on_demand += 1
                if on_demand > 300:
                    continue  # a broken parser on a long input can wander anywhere: a sample is enough
                try:
                    if side is None:
                        side = Model(ui.g, ui.types)
                        side.parse(rule, inp)  # initialises input (once per case)
                    side.steps = 0
                    r2 = side.call(inv["rule"], inv["q"])
                    outs = {("ok", r2.end, False)} if r2 is not None else {("err", False)}
                    cnt("fn_on_demand")
                except Exception:
                    continue
            if any(o[-1] for o in outs):
                continue  # evaluated inside a left-recursive growth: handled by C07's result comparison
            cnt("fn_compared")
            got = ("ok", inv["end"], False) if inv["ok"] else ("err", False)
            if got not in outs:
                F.append(Finding("fn", "rule %s entered at offset %d %s, PEG semantics gives %s" %
                                 (inv["rule"], inv["q"], "consumed up to %d" % inv["end"] if inv["ok"] else "failed",
                                  sorted(outs)), expected=sorted(outs), observed=list(got)))
                break
    if exp["ok"]:
        if obs_tree is not None:
            cnt("tree_compared")
            pos_o, pos_e = [], []
            to = strip_positions(obs_tree, pos_o)
            te = strip_positions(exp["value"], pos_e)
            facts["nvalues"] = count_values(te)
            facts["npos"] = len(pos_e)
            if to != te:
                F.append(Finding("tree", "returned tree differs from the matches on the successful path",
                                 expected=rdebug.show(exp["value"]), observed=res[1][:600]))
            else:
                cnt("positions_compared", len(pos_e))
                if pos_o != pos_e:
                    F.append(Finding("position", "recorded positions differ from the consumed spans",
                                     expected=pos_e, observed=pos_o))
            tp = res0.get("pos") or (recs.get("rec") or {}).get("pos")
            if tp is not None:
                cnt("pegposition_trait_checked")
                # PegPosition::position() of the root must equal the root's range
                exp_root = root_position(exp["value"])
                if exp_root is not None and tuple(tp) != exp_root:
                    F.append(Finding("position", "PegPosition::position() returned %s, expected %s" % (tp, exp_root),
                                     expected=list(exp_root), observed=list(tp)))
    else:
        pos, spec = res[1], res[2]
        try:
            kind = spec_kind(spec)
        except Exception:
            kind = ("Unknown", spec)
        all_offs = {}
        for (o, k) in exp["att_all"]:
            all_offs.setdefault(o, set()).add(k)
        cnt("errpos_compared")
        facts["n_fail_offsets"] = len({o for o, _ in exp["att"]})
        if kind == ("Sentinel",):
            if ui.lr_recursive_first:
                F.append(Finding("errspec_sentinel", "reported detail is the internal left-recursion sentinel",
                                 observed=[pos, spec]))
        elif kind == ("Other",):
            F.append(Finding("errspec", "reported detail is `Other` (no real attempt)", observed=[pos, spec]))
        elif pos not in all_offs:
            F.append(Finding("errpos", "reported position %d is not an offset at which any match attempt failed" % pos,
                             expected=sorted(all_offs), observed=pos))
        else:
            if not ui.has_memo and not ui.has_lr:
                far = max(o for o, _ in exp["att"]) if exp["att"] else None
                cnt("errpos_far_compared")
                if far is not None and pos != far:
                    F.append(Finding("errpos_far", "reported position %d is not the furthest failure offset %d" % (pos, far),
                                     expected=far, observed=pos))
            if kind not in all_offs.get(pos, ()):
                F.append(Finding("errspec", "reported detail %s names no attempt that failed at offset %d" % (kind, pos),
                                 expected=sorted(map(str, all_offs.get(pos, ()))), observed=str(kind)))
    # ---- user functions (C14)
    r_calls = res0["calls"]
    if r_calls or exp["calls"]:
        cnt("userfn_cases")
        F += compare_calls(ui, exp["calls"], r_calls, n, cnt, res0.get("ctx"))
    facts["steps_impl"] = res0.get("steps")
    facts["steps_model"] = exp["steps"]
    return F, exp, facts


def root_position(v):
    if v[0] == "struct" and "position" in v[2]:
        p = v[2]["position"]
        return (p[1], p[2])
    if v[0] == "call" and v[2]:
        return root_position(v[2][0])
    return None


def compare_calls(ui, exp_calls, obs_calls, n, cnt, ctx_total):
    F = []
    eset = set()
    for c in exp_calls:
        if c[0] == "C":
            try:
                eset.add(("C", c[1], repr(rdebug.parse(c[2])), c[3]))
            except rdebug.DebugSyntax:
                eset.add(("C", c[1], c[2], c[3]))
        elif c[0] == "K":
            eset.add(("K", c[1], c[2], c[3]))
        elif c[0] == "X":
            eset.add(("X", c[1], c[2], c[3][0], c[3][1] if c[3][0] == "ok" else c[3][1]))
    oset = set()
    ctxs = []
    for c in obs_calls:
        if c[0] == "C":
            try:
                a = repr(rdebug.parse(c[2]))
            except rdebug.DebugSyntax:
                a = c[2]
            oset.add(("C", c[1], a, c[4]))
            if c[3] != "-":
                ctxs.append(int(c[3]))
            # purity: the harness function's decision is a function of its argument
            want = model_mod.decide(model_mod.CHECK_SALT[c[1]], c[2])
            if want != c[4]:
                F.append(Finding("userfn", "harness check %s returned %s for %s (mirror says %s) - harness/model mismatch" % (c[1], c[4], c[2], want)))
        elif c[0] == "K":
            oset.add(("K", c[1], c[2], c[3]))
        elif c[0] == "X":
            q = n - c[2]
            out = c[4]
            oset.add(("X", c[1], q, out[0], out[1]))
            if c[3] != "-":
                ctxs.append(int(c[3]))
    cnt("userfn_calls", len(obs_calls))
    if ctxs:
        cnt("userfn_ctx_calls", len(ctxs))
        if ctxs != list(range(1, len(ctxs) + 1)) or (ctx_total is not None and ctx_total != len(ctxs)):
            F.append(Finding("userfn", "user context was not threaded through the calls in order", observed=ctxs[:20]))
    elif ui.g.user_ctx and obs_calls and any(c[0] in ("C", "X") for c in obs_calls):
        F.append(Finding("userfn", "grammar compiled with a user context but functions did not receive it"))
    if ui.has_memo or ui.has_lr:
        # caching may legitimately change how often a function is called; require only that
        # every observed call is one the reference evaluation also makes
        extra = oset - eset
        if extra and not ui.has_lr:
            F.append(Finding("userfn", "user function called with an argument/offset the reference evaluation never produces",
                             observed=sorted(map(str, extra))[:5]))
        return F
    if oset != eset:
        F.append(Finding("userfn", "user functions saw different arguments than the reference evaluation",
                         expected=sorted(map(str, eset - oset))[:5], observed=sorted(map(str, oset - eset))[:5]))
    return F
