"""C15: the grammar compiler always answers - code or an error - and says so (subprocess outcome monitor)."""
import glob
import os
import random
import re
import subprocess
import tempfile

import build
import ggen
import grender
from evidence import Outcome

TOKEN = re.compile(r"""\s+|#[^\n]*\n?|i?'(?:\\.|[^'\\])*'|i?"(?:\\.|[^"\\])*"|@[a-z_]+|[A-Za-z_][A-Za-z0-9_]*|\.\.|::|->|.""", re.S)

RESTRICTIONS = [
    # (name, grammar text) - each must be rejected with an error
    ("field in negative lookahead", "@export A = !(x:B) 'a'; B = 'b';"),
    ("field in positive lookahead", "@export A = &x:B 'a'; B = 'b';"),
    ("field in lookahead via include", "@export A = !(>C) 'a'; C = x:B; B = 'b';"),
    ("field in lookahead nested", "@export A = { 'q' [ &( 'z' | y:B ) ] } 'a'; B = 'b';"),
    ("override mixed with named field", "@export A = @:B x:B; B = 'b';"),
    ("override mixed with named field in arms", "@export A = @:B | x:B; B = 'b';"),
    ("override mixed via include", "@export A = @:B >C; C = x:B; B = 'b';"),
    ("multi-type override in optional", "A = [@:B] | @:C; B = 'b'; C = 'c';"),
    ("multi-type override in closure", "A = {@:B | @:C}; B = 'b'; C = 'c';"),
    ("multi-type override missing in an arm", "A = @:B | @:C | 'x'; B = 'b'; C = 'c';"),
    ("multi-type override twice in a sequence", "A = @:B @:C; B = 'b'; C = 'c';"),
    ("export on plain override", "@export A = @:B; B = 'b';"),
    ("position on plain override", "@position A = @:B; B = 'b';"),
    ("string with export", "@string @export A = 'a';"),
    ("export with string, other order", "@export @no_skip_ws @string A = {'a'..'z'};"),
    ("skipping Whitespace rule", "@export A = 'a'; Whitespace = {' '};"),
    ("skipping Whitespace rule with comment", "@export A = 'a'; Whitespace = {' ' | Comment}; @no_skip_ws Comment = '#';"),
    ("non-ascii insensitive literal", "@export A = i'é';"),
    ("non-ascii insensitive literal (escape)", "@export A = 'a' i\"x\\u00e9\";"),
    ("non-ascii insensitive literal in closure", "@export A = { i'ß' };"),
    ("invalid code point u{110000}", "@export A = '\\u{110000}';"),
    ("invalid code point surrogate u{D800}", "@export A = '\\u{D800}';"),
    ("invalid code point \\uD800", "@export A = 'a\\uD800';"),
    ("invalid code point \\U00D80000", "@export A = '\\U00D80000';"),
    ("invalid code point in range", "@export A = 'a'..'\\u{FFFFFF}';"),
    ("invalid code point in char rule", "@export A = x:C; @char C = '\\u{DFFF}';"),
    ("include of a missing rule", "@export A = >Nope;"),
    ("include of a char rule", "@export A = >C; @char C = 'a';"),
    ("include of an extern rule", "@export A = >E; @extern(crate::f) E;"),
    ("include of a missing rule, nested", "@export A = 'a' { [ >Nope ] } ;"),
]
# include cycles of every shape: direct, mutual, and cycles that close only after another include has finished
for _lab, _t in [("direct", "@export A = 'x' >A;"), ("mutual", "@export A = >B 'x'; B = 'y' >A;"),
                 ("after a sibling include", "@export Items = item:Ident [',' >Header ';' >Items]; Header = 'h'; @string Ident = {'a'..'z'}+;"),
                 ("after a nested include", "@export Block = >Prefix body:Ident >Rest; Prefix = >Mark; Mark = 'm'; Rest = [';' >Block]; @string Ident = {'a'..'z'}+;"),
                 ("through a closure after two includes", "@export L = >H >H {',' >T}; H = 'h'; T = 't' [>L];"),
                 ("three rules, last closes", "@export A = >B; B = >C 'b' >D; C = 'c'; D = 'd' {>A};")]:
    RESTRICTIONS.append(("include cycle (%s)" % _lab, _t))
# "mixing `@:` with named fields is rejected" - in every order and wrapping, on a rule that carries no other
# restriction (not exported, no directives), used from an exported root
for _ov in ("@:B", "[@:B]", "(@:B | @:C)", "{@:B}", "'<' @:B '>'"):
    for _nm in ("x:B", "{x:B}", "[x:B]", "x:B y:C", "( x:B | y:C )"):
        for _lab, _body in (("override first", "%s %s" % (_ov, _nm)), ("named first", "%s %s" % (_nm, _ov)),
                            ("override first, then alone", "%s %s | %s" % (_ov, _nm, _ov)), ("separate arms, named first", "%s | %s" % (_nm, _ov))):
            RESTRICTIONS.append(("override mixed with named field (%s: %s)" % (_lab, _body), "@export S = a:A $; A = %s; B = 'b'; C = 'c';" % _body))
# expression-level violations, to be embedded in every syntactic context (the same construct must be rejected
# whether it is the whole body, one alternative of a choice, inside brackets, in a sequence, behind a lookahead ...)
BAD_EXPRS = [
    ("non-ascii insensitive literal", "i'é'", ""),
    ("non-ascii insensitive literal \\xe9", "i'\\xe9'", ""),
    ("non-ascii insensitive literal multi", "i\"aéb\"", ""),
    ("invalid code point u{110000}", "'\\u{110000}'", ""),
    ("invalid code point u{D800}", "'a\\u{D800}'", ""),
    ("invalid code point \\uDFFF", "'\\uDFFF'", ""),
    ("invalid code point \\U00FFFFFF", "'\\U00FFFFFF'", ""),
    ("invalid code point in range start", "'\\u{D800}'..'z'", ""),
    ("invalid code point in range end", "'a'..'\\u{FFFFFF}'", ""),
    ("include of a missing rule", ">Nope", ""),
    ("include of a char rule", ">Cq", "@char Cq = 'a';"),
    ("include of an extern rule", ">Eq", "@extern(crate::f) Eq;"),
    ("field in negative lookahead", "!(x:Bq)", "Bq = 'b';"),
    ("field in positive lookahead", "&x:Bq", "Bq = 'b';"),
    ("field in lookahead via include", "!(>Dq)", "Dq = x:Bq; Bq = 'b';"),
]
CONTEXTS = [
    ("alone", "%s"), ("seq-first", "%s 'k'"), ("seq-last", "'k' %s"), ("seq-middle", "'k' %s 'm'"),
    ("choice-first", "%s | 'k'"), ("choice-last", "'k' | %s"), ("choice-middle", "'k' | %s | 'm'"),
    ("group", "( %s )"), ("optional", "[ %s ]"), ("closure", "{ %s 'k' }"), ("closure+", "{ 'k' %s }+"),
    ("group-choice", "'x' ( 'k' | %s ) 'y'"), ("closure-choice", "{ 'k' | %s 'm' }"), ("optional-choice", "[ %s | 'k' ] 'z'"),
    ("neg-lookahead", "!( 'k' | %s ) 'q'"), ("pos-lookahead", "&( %s ) 'q'"), ("nested", "'a' [ { ( 'k' | ( %s ) ) 'm' } ]"),
    ("with-field", "f:Fq ( %s | g:Fq )"), ("string-rule", "@STRING %s | 'k'"), ("memo-rule", "@MEMO 'k' | %s"),
]


def bad_expr_corpus():
    out = []
    for (name, expr, extra) in BAD_EXPRS:
        for (cname, tmpl) in CONTEXTS:
            if "lookahead" in name and "lookahead" in cname:
                pass
            body = tmpl % expr
            directives = "@export "
            if body.startswith("@STRING "):
                body = body[8:]
                directives = "@string @no_skip_ws "
            elif body.startswith("@MEMO "):
                body = body[6:]
                directives = "@export @memoize "
            text = "%sAq = %s;\nFq = 'f';\n%s\n" % (directives, body, extra)
            out.append(("restriction/%s/%s" % (name, cname), text))
    return out


MEMO_NOCLONE = ("memoize without Clone", "@export @memoize A = 'a';", "Debug")

HOSTILE = [
    "A = >A;", "A = >B; B = >A;", "A = 'x' >B; B = [>C]; C = {>A};", "@export A = x:A;", "A = A;",
    "1abc = 'a';", "_ = 'a';", "self = 'a';", "Self = 'a';", "super = 'a';", "crate = 'a';", "A = self:B; B='b';",
    "A = crate:B; B='b';", "A = _:B; B='b';", "A = 1:B; B='b';", "A = x:1B; 1B = 'b';", "A = x:_; _ = 'b';",
    "@check(a b) A = 'a';", "@check(1) A = 'a';", "@check(crate::x) A = 'a';", "@check(super::f) A = 'a';",
    "@check(self::f) A = 'a';", "@check(Self::f) A = 'a';", "@check() A = 'a';", "@check(a::) A = 'a';", "@check(::a) A = 'a';",
    "@extern(f -> 1x) A;", "@extern(f -> ) A;", "@extern(super::f -> super::T) A;", "@extern(a b -> c d) A;", "@extern(f) 1A;",
    "@check(f) @char C = 'a';", "@check(a b) @char C = 'a';", "@char C = D; @char D = C;", "@char 9 = 'a';",
    "A = 'a'..'b'..'c';", "A = ''..'a';", "A = 'ab'..'c';", "A = i'a'..'b';", "A = '\\", "A = '\\x", "A = '\\u{", "A = '\\u{}';",
    "A = '\\U0011FFFF';", "A = '\\xZZ';", "", ";", "A", "A =", "A = ;", "= 'a';", "A = 'a'", "A = (;", "A = );", "A = {}+;",
    "@ A = 'a';", "@export", "@export @export A = 'a';", "@string @string @position @position A = 'a';",
    "@leftrec @memoize @leftrec A = A 'x' | 'b';", "@char @char C = 'a';", "@export @char C = 'a';",
    "A = 'a'; A = 'b';", "A = x:B x:C x:char; B = 'b'; C = 'c';", "A = @:A;", "A = @:B; B = @:A;", "A = [@:A];",
    "@position @position A = 'a';", "Whitespace = 'a';", "@no_skip_ws Whitespace = Whitespace;", "char = 'a';", "@export char = x:char;",
    "String = 'a'; A = s:String;", "A = $ $ $;", "A = !$;", "A = !!!!!!!!'a';", "A = &&&&&&&&'a';", "A = >>B; B='b';",
    "A = i'';", "A = i\"\";", "A = ''..'';", "\ufeffA = 'a';", "A = 'a';\x00", "A\x00 = 'a';", "# only a comment", "# no newline at end",
    "A = 'a' # trailing comment without newline", "A = x:*B; B = y:*A;", "A = x:**B; B='b';", "A = @:*B | @:*C; B='b'; C='c';",
]


def tokens(text):
    return [t for t in TOKEN.findall(text)]


def mutants(text, rnd, n):
    out = []
    toks = tokens(text)
    sig = [i for i, t in enumerate(toks) if not t.isspace()]
    b = text.encode("utf-8")
    names = ["1abc", "_", "self", "Self", "super", "crate", "123", "fn", "r#fn", "a-b", "é", "A" * 3000, "char", "Whitespace", "Parsed", "String"]
    for _ in range(n):
        x = rnd.random()
        t = list(toks)
        if x < 0.15 and len(b) > 1:
            k = rnd.randrange(1, len(b))
            out.append(b[:k].decode("utf-8", "ignore"))
            continue
        if not sig:
            break
        i = rnd.choice(sig)
        if x < 0.3:
            del t[i]
        elif x < 0.4:
            t.insert(i, t[i])
        elif x < 0.5 and i + 1 < len(t):
            t[i], t[i + 1] = t[i + 1], t[i]
        elif x < 0.68:
            idents = [j for j in sig if re.fullmatch(r"[A-Za-z_][A-Za-z0-9_]*", t[j])]
            if idents:
                j = rnd.choice(idents)
                new = rnd.choice(names)
                if rnd.random() < 0.5:
                    old = t[j]
                    t = [new if (tt == old) else tt for tt in t]
                else:
                    t[j] = new
        elif x < 0.8:
            t.insert(i, rnd.choice(["(", ")", "[", "]", "{", "}", "!", "&", "|", ";", "=", "@", ":", "*", ">", "$", "..", "'", '"', "\\", "#", "i'", "@:", "}+"]))
        elif x < 0.88:
            j = rnd.choice(sig)
            t[i] = t[j]
        elif x < 0.94:
            t.insert(i, rnd.choice(["\u00e9", "\U0001F600", "\u0301", "\x00", "\x7f", "\u2028", "\ufeff", "\u00a0"]))
        else:
            # splice: move a slice somewhere else
            a, c = sorted((rnd.randrange(len(t)), rnd.randrange(len(t))))
            seg = t[a:c]
            del t[a:c]
            k = rnd.randrange(len(t) + 1)
            t[k:k] = seg
        out.append("".join(t))
    return out


def deep_nesting(depths):
    out = []
    for d in depths:
        out.append(("paren depth %d" % d, "A = " + "(" * d + "'a'" + ")" * d + ";"))
        out.append(("optional depth %d" % d, "A = " + "[" * d + "'a'" + "]" * d + ";"))
        out.append(("closure depth %d" % d, "A = " + "{" * d + "'a'" + "}" * d + ";"))
        out.append(("negation chain %d" % d, "A = " + "!" * d + "'a';"))
        out.append(("mixed depth %d" % d, "A = " + "([{!" * (d // 4) + "'a'" + "}])" * (d // 4) + ";"))
        out.append(("unclosed paren depth %d" % d, "A = " + "(" * d + "'a';"))
        out.append(("include chain %d" % d, "".join("R%d = >R%d;" % (i, i + 1) for i in range(d)) + "R%d = 'a';" % d))
    return out


def panic_signature(loc, msg):
    loc = re.sub(r"^.*/registry/src/[^/]+/", "", loc)
    loc = loc.replace(build.REPO + "/", "")
    m = re.sub(r'"[^"]*"', '"<x>"', msg)
    m = re.sub(r"`[^`]*`", "`<x>`", m)
    m = re.sub(r"\d+", "N", m)
    return "panic:%s:%s" % (re.sub(r":\d+$", "", loc), m[:80])


def abort_signature(cgdrv, mode, jobfile_line, workdir):
    """re-run the single job under gdb and summarise the repeating frames"""
    jf = os.path.join(workdir, "abort_job.tsv")
    with open(jf, "w") as f:
        f.write(jobfile_line + "\n")
    try:
        p = subprocess.run(["gdb", "-batch", "-ex", "run", "-ex", "bt 48", "--args", cgdrv, mode, jf],
                           stdout=subprocess.PIPE, stderr=subprocess.STDOUT, timeout=180, env=build.BASE_ENV)
        txt = p.stdout.decode("utf-8", "replace")
    except Exception as e:
        return "abort:unknown(%s)" % type(e).__name__
    sigm = re.search(r"received signal (\w+)", txt)
    fns = {}
    for m in re.finditer(r"^#\d+\s+(?:0x[0-9a-f]+ in )?([^\s(]+)", txt, re.M):
        fn = re.sub(r"::h[0-9a-f]{16}$", "", m.group(1))
        fn = re.sub(r"<[^<>]*>", "<>", fn)
        fns[fn] = fns.get(fn, 0) + 1
    sig = sigm.group(1) if sigm else "?"
    names = " ".join(fns)
    # families of unbounded recursion, most specific first
    if "include_rule" in names:
        return "abort:%s:recursion through include expansion (peginator_codegen::include_rule)" % sig
    if "grammar::generated::peginator_generated" in names:
        return "abort:%s:recursion depth of the bootstrapped grammar parser (nesting depth of the grammar text)" % sig
    if "peginator_codegen::" in names:
        return "abort:%s:recursion depth of code generation (nesting depth of the grammar text)" % sig
    top = sorted(fns.items(), key=lambda kv: (-kv[1], kv[0]))[:3]
    return "abort:%s:%s" % (sig, "|".join(sorted(k for k, _ in top)))


def check_C15(tier, seed):
    out = Outcome("C15", tier, seed)
    rnd = random.Random("c15/%s" % seed)
    cgdrv = build.tool_cgdrv()
    wd = os.path.join(build.WORK, "c15")
    if os.path.isdir(wd):
        import shutil
        shutil.rmtree(wd)
    os.makedirs(wd)
    corpus = []  # (label, text, derives, expectation) expectation: 'any' | 'err'
    seeds = []
    for p in sorted(glob.glob(os.path.join(build.REPO, "test", "src", "*", "grammar.*ebnf")) + [os.path.join(build.REPO, "grammar.ebnf")]):
        with open(p, encoding="utf-8") as f:
            seeds.append((os.path.relpath(p, build.REPO), f.read()))
    suite_texts = {t for _, t in seeds}
    for lab, t in seeds:
        corpus.append(("suite:" + lab, t, "-", "ok"))
    ngen = 40 if tier == "quick" else 400
    for prof in ("core", "types", "leftrec", "userfn", "ws", "unicode", "include"):
        for i, g in enumerate(ggen.generate("c15/%s" % seed, prof, max(2, ngen // 7))):
            lay = random.Random("c15/%s/%s/%d" % (seed, prof, i))
            t = grender.render(g, lay if i % 2 else None)
            seeds.append(("gen:%s:%d" % (prof, i), t))
            corpus.append(("gen:%s:%d" % (prof, i), t, "-", "ok"))
    nmut = 2500 if tier == "quick" else 60000
    per = max(1, nmut // len(seeds))
    for lab, t in seeds:
        for j, m in enumerate(mutants(t, rnd, per)):
            corpus.append(("mut:%s:%d" % (lab, j), m, "-", "any"))
    for lab, t in RESTRICTIONS:
        corpus.append(("restriction:" + lab, t, "-", "err"))
        # the same construction embedded in a larger valid grammar and in other layouts
        base = seeds[rnd.randrange(len(seeds))][1]
        renamed = re.sub(r"\b([ABCE])\b", lambda m: "Rq" + m.group(1), t)
        corpus.append(("restriction+ctx:" + lab, base + "\n" + renamed.replace("Nope", "RqNope"), "-", "err"))
        corpus.append(("restriction+layout:" + lab, t.replace(" ", " \n# c\n\t").replace(";", " ;\n"), "-", "err"))
    for lab, t in bad_expr_corpus():
        corpus.append(("restriction:" + lab, t, "-", "err"))
    corpus.append(("restriction:" + MEMO_NOCLONE[0], MEMO_NOCLONE[1], MEMO_NOCLONE[2], "err"))
    corpus.append(("restriction:" + MEMO_NOCLONE[0] + " (empty derives)", MEMO_NOCLONE[1], "=", "err"))
    for k, t in enumerate(["@export @memoize @leftrec A = A 'x' | 'b';", "@export @leftrec @memoize A = l:*A '+' r:B | r:B; B = 'b';",
                           "@export S = a:A; @position @leftrec @check(crate::f) @memoize A = A 'x' | 'b';", "@export S = a:A $; @memoize A = 'a' | '(' a:*A ')';"]):
        for der in ("Debug", "=", "Debug,PartialEq"):
            corpus.append(("restriction:memoize(+leftrec) without Clone #%d/%s" % (k, der), t, der, "err"))
    corpus.append(("restriction:leftrec without Clone", "@export @leftrec A = A 'x' | 'b';", "Debug", "any"))
    for t in HOSTILE:
        corpus.append(("hostile:" + t[:30], t, "-", "any"))
    # "all derive sets": names that are not usable identifiers must give an error, never a panic
    for der in ["Debug,,Clone", ",", "Debug,", " ", "1x", "a b", "serde::Serialize", "Clone,Clone", "é", "_", "Self", "r#fn", "Debug,Clone,PartialEq,Eq,Hash,PartialOrd,Ord,Default", "x" * 500]:
        for t in ["@export A = 'a' b:B; B = 'b';", "@export @memoize A = x:B | x:C; B = 'b'; C = 'c';", "@char C = 'a';"]:
            corpus.append(("derives:%r" % der[:20], t, der, "any"))
    depths = [10, 100, 1000] if tier == "quick" else [10, 100, 1000, 3000]
    for lab, t in deep_nesting(depths):
        corpus.append(("deep:" + lab, t, "-", "any"))
    # ---- run the library route in isolated jobs
    jobs = []
    lines = {}
    for i, (lab, t, der, exp) in enumerate(corpus):
        gp = os.path.join(wd, "c%d.ebnf" % i)
        with open(gp, "w", encoding="utf-8") as f:
            f.write(t)
        j = ("c%d" % i, gp, "-", der, "-")
        jobs.append(j)
        lines["c%d" % i] = "\t".join(j)
    res = build.run_cgdrv("gen", jobs, wd, timeout=600)
    classes = {}
    nontriv = set()
    aborted = []
    for i, (lab, t, der, exp) in enumerate(corpus):
        r = res.get("c%d" % i)
        cls = r[0] if r else "missing"
        classes[cls] = classes.get(cls, 0) + 1
        if t not in suite_texts:
            nontriv.add(t)
        witness = {"label": lab, "grammar_text": t[:4000], "derives": der, "class": cls}
        if cls == "panic":
            loc, msg = build.unhex(r[2]), build.unhex(r[3])
            witness.update({"panic_at": loc, "panic_message": msg})
            out.violation(panic_signature(loc, msg), "grammar compiler panicked at %s: %s [%s]" % (loc, msg[:120], lab), witness)
        elif cls == "abort":
            aborted.append((i, lab, t, r, witness))
        elif cls == "timeout":
            out.inconc("watchdog_timeout")
        elif cls == "missing":
            out.inconc("harness_missing_result")
        elif exp == "err" and cls == "ok":
            out.violation("accepted-restriction:" + lab.split(":", 1)[1], "grammar breaking a documented restriction was accepted: " + lab, witness)
        elif exp == "ok" and cls != "ok":
            # suite / generator grammars are expected to compile; not part of C15's statement -> note only
            out.notes.append({"unexpectedly_rejected": lab, "class": list(r)[:1], "detail": build.unhex(r[-1])[:200] if len(r) > 2 else ""})
    done_sigs = {}
    for (i, lab, t, r, witness) in aborted[:12]:
        sig = abort_signature(cgdrv, "gen", lines["c%d" % i], wd)
        witness["exit"] = list(r)
        witness["stack_signature"] = sig
        out.violation(sig, "grammar compiler process died (%s) [%s]" % (sig, lab), witness)
    if len(aborted) > 12:
        out.inconc("aborts_not_classified", len(aborted) - 12)
    out.coverage["outcome_classes"] = classes
    # ---- the tools must report failure
    cli = build_cli()
    bs = build_bscript()
    tool_cases = [("valid", "@export A = 'a' {b:B} $; B = 'b';", 0), ("syntax error", "@export A = = 'a';", 1),
                  ("restriction", "@export A = @:B x:B; B = 'b';", 1), ("invalid code point", "@export A = '\\u{110000}';", 1)]
    extra_bad = [c for c in corpus if c[0].startswith("restriction:")][: (6 if tier == "quick" else 30)]
    for lab, t, der, exp in extra_bad:
        tool_cases.append((lab, t, 1))
    ntool = 0
    real_header = None
    td = os.path.join(wd, "tools")
    os.makedirs(td)
    for k, (lab, t, want) in enumerate(tool_cases):
        gp = os.path.join(td, "t%d.ebnf" % k)
        with open(gp, "w", encoding="utf-8") as f:
            f.write(t)
        p = subprocess.run([cli, gp], stdout=subprocess.PIPE, stderr=subprocess.PIPE, env=build.BASE_ENV, timeout=120)
        ntool += 1
        okish = (p.returncode == 0)
        if want == 0 and (not okish or b"peginator_generated" not in p.stdout):
            out.violation("cli:valid-grammar-failed", "peginator-cli failed on a valid grammar (%s): rc=%s" % (lab, p.returncode), {"grammar_text": t, "rc": p.returncode, "stderr": p.stderr.decode("utf-8", "replace")[:500]})
        if want == 1 and okish:
            out.violation("cli:exit-status-0-on-error", "peginator-cli exited with status 0 although the grammar was rejected (%s); stdout: %r" % (lab, p.stdout.decode("utf-8", "replace")[:120]),
                          {"grammar_text": t, "rc": p.returncode, "stdout": p.stdout.decode("utf-8", "replace")[:500]})
        if want == 1 and not okish and p.returncode < 0:
            out.violation("cli:killed-by-signal", "peginator-cli died with signal %d (%s)" % (-p.returncode, lab), {"grammar_text": t, "rc": p.returncode})
        # build-script helper: run() -> Err, run_exit_on_error -> status 1
        dest = os.path.join(td, "t%d.rs" % k)
        p = subprocess.run([bs, "run", gp, dest, "-", "-", "0", "-"], stdout=subprocess.PIPE, stderr=subprocess.PIPE, env=build.BASE_ENV, timeout=120)
        ntool += 1
        so = p.stdout.decode("utf-8", "replace").strip()
        if want == 0 and so != "OK":
            out.violation("compile-run:valid-grammar-failed", "Compile::run failed on a valid grammar: %s" % so[:200], {"grammar_text": t})
        if want == 1 and not so.startswith("ERR"):
            out.violation("compile-run:no-error", "Compile::run did not return Err for a rejected grammar (%s): %r rc=%s" % (lab, so[:100], p.returncode), {"grammar_text": t, "rc": p.returncode})
        if want == 1:
            # the failure must stay visible on every later run with the same grammar and destination
            for again in (2, 3):
                p = subprocess.run([bs, "run" if again == 2 else "run_exit", gp, dest, "-", "-", "0", "-"], stdout=subprocess.PIPE, stderr=subprocess.PIPE, env=build.BASE_ENV, timeout=120)
                ntool += 1
                so2 = p.stdout.decode("utf-8", "replace").strip()
                if (again == 2 and not so2.startswith("ERR")) or (again == 3 and p.returncode != 1):
                    out.violation("compile-run:error-swallowed-on-repeat", "run #%d of the build-script helper on the same rejected grammar and destination no longer reports the failure (%s): %r rc=%s" % (again, lab, so2[:80], p.returncode),
                                  {"grammar_text": t, "rc": p.returncode, "run": again})
        if want == 0 and os.path.exists(dest) and real_header is None:
            with open(dest, encoding="utf-8", errors="replace") as f:
                real_header = f.read(400)
        # the destination may already be there in any state (an empty placeholder, the cut-off output of an interrupted
        # build, the complete output of an older grammar): the answer for the current grammar must not depend on it
        hdr = real_header or "// This file was generated by Peginator v0.7.0 built at 1\n"
        nl1 = hdr.find("\n") + 1
        for plab, pre in (("empty file", ""), ("a single newline", "\n"), ("the start of a header line", hdr[:28]), ("the first header line", hdr[:nl1]),
                          ("a header cut inside its second line", hdr[:nl1 + 20]), ("output of another grammar", hdr[:nl1] + "// CRC-32/ISO-HDLC of the grammar file: 00000000\n// Any changes to it will be lost on regeneration\n\npub struct Old;\n")):
            with open(dest, "w", encoding="utf-8") as f:
                f.write(pre)
            p = subprocess.run([bs, "run", gp, dest, "-", "-", "0", "-"], stdout=subprocess.PIPE, stderr=subprocess.PIPE, env=build.BASE_ENV, timeout=120)
            ntool += 1
            so3 = p.stdout.decode("utf-8", "replace").strip()
            if want == 1 and not so3.startswith("ERR"):
                out.violation("compile-run:error-hidden-by-existing-destination", "Compile::run did not return Err for a rejected grammar (%s) when the destination already held %s: %r rc=%s" % (lab, plab, so3[:80], p.returncode),
                              {"grammar_text": t, "destination_before": pre, "rc": p.returncode})
            if want == 0:
                with open(dest, encoding="utf-8", errors="replace") as f:
                    now = f.read()
                if so3 != "OK" or "peginator_generated" not in now:
                    out.violation("compile-run:valid-grammar-not-compiled", "Compile::run on a valid grammar with the destination holding %s: result %r, destination %s the generated code" % (plab, so3[:80], "has" if "peginator_generated" in now else "does not have"),
                                  {"grammar_text": t, "destination_before": pre})
        if os.path.exists(dest):
            os.remove(dest)
        p = subprocess.run([bs, "run_exit", gp, dest, "-", "-", "0", "-"], stdout=subprocess.PIPE, stderr=subprocess.PIPE, env=build.BASE_ENV, timeout=120)
        ntool += 1
        if want == 0 and p.returncode != 0:
            out.violation("run-exit:valid-grammar-failed", "run_exit_on_error exited %s on a valid grammar" % p.returncode, {"grammar_text": t})
        if want == 1 and p.returncode != 1:
            out.violation("run-exit:wrong-status", "run_exit_on_error exited with status %s (want 1) for a rejected grammar (%s)" % (p.returncode, lab), {"grammar_text": t, "rc": p.returncode})
    # directory mode: one rejected grammar among valid ones, at every place of the listing (and in a sub-directory, and next
    # to files that are not grammars): the run must report the failure whatever comes after the bad file
    good = "@export A = 'a' {b:B} $; B = 'b';"
    names = ["a.ebnf", "b.ebnf", "c.ebnf", "sub/d.ebnf", "m.ebnf"]
    for bi, (blab, bad) in enumerate([("syntax error", "@export A = = 'a';"), ("restriction", "@export S = a:A; A = @:B x:B; B = 'b';"), ("field in lookahead", "@export A = !(x:B) 'a'; B = 'b';")]):
        for pos in range(len(names)):
            dd = os.path.join(td, "dir_%d_%d" % (bi, pos))
            os.makedirs(os.path.join(dd, "sub"))
            for k2, nm in enumerate(names):
                with open(os.path.join(dd, nm), "w", encoding="utf-8") as f:
                    f.write(bad if k2 == pos else good)
            with open(os.path.join(dd, "README.txt"), "w") as f:
                f.write("not a grammar\n")
            with open(os.path.join(dd, "z_notes.md"), "w") as f:
                f.write("# notes\n")
            for mode_, want_rc in (("dir", None), ("dir_exit", 1)):
                p = subprocess.run([bs, mode_, dd, "-", "-", "-", "0", "-"], stdout=subprocess.PIPE, stderr=subprocess.PIPE, env=build.BASE_ENV, timeout=120)
                ntool += 1
                so = p.stdout.decode("utf-8", "replace").strip()
                if mode_ == "dir" and not so.startswith("ERR"):
                    out.violation("compile-dir:error-lost", "Compile::directory(..).run() returned Ok although %s was rejected (%s; other entries valid)" % (names[pos], blab),
                                  {"bad_file": names[pos], "kind": blab, "stdout": so[:200]})
                if mode_ == "dir_exit" and p.returncode != 1:
                    out.violation("compile-dir:exit-status", "run_exit_on_error in directory mode exited with status %s although %s was rejected (%s)" % (p.returncode, names[pos], blab),
                                  {"bad_file": names[pos], "kind": blab, "rc": p.returncode})
    # missing / unreadable grammar file
    p = subprocess.run([cli, os.path.join(td, "does_not_exist.ebnf")], stdout=subprocess.PIPE, stderr=subprocess.PIPE, env=build.BASE_ENV, timeout=120)
    ntool += 1
    if p.returncode == 0:
        out.violation("cli:exit-status-0-on-error", "peginator-cli exited with status 0 for a missing grammar file", {"rc": 0, "stdout": p.stdout.decode("utf-8", "replace")[:300]})
    p = subprocess.run([bs, "run_exit", os.path.join(td, "does_not_exist.ebnf"), "-", "-", "-", "0", "-"], stdout=subprocess.PIPE, stderr=subprocess.PIPE, env=build.BASE_ENV, timeout=120)
    ntool += 1
    if p.returncode != 1:
        out.violation("run-exit:wrong-status", "run_exit_on_error exited with status %s for a missing grammar file" % p.returncode, {"rc": p.returncode})
    out.coverage["tool_invocations"] = ntool
    out.samples = [{"label": c[0], "grammar_text": c[1][:300], "class": (res.get("c%d" % i) or ["?"])[0]} for i, c in list(enumerate(corpus))[::max(1, len(corpus) // 5)][:5]]
    import shutil
    shutil.rmtree(wd, ignore_errors=True)
    rule = ("grammar texts compiled through the real library route (Grammar::from_str + generate_code), each in its own catch_unwind inside a driver process with BEGIN/END markers (process death attributed and classified with gdb): "
            "suite grammars, generator output of 7 profiles, token/byte-level mutants of those (truncate, drop/dup/swap tokens, rename identifiers to digits/keywords/_/path keywords, unbalance brackets, splice), hand-written hostile texts, deep nesting, "
            "one constructor per documented restriction in 3 contexts (must be rejected); plus peginator-cli / Compile::run / run_exit_on_error exit-status checks (single files, repeated runs, and directory trees with one rejected grammar at every place of the listing). "
            "Non-trivial: text is not a suite grammar verbatim; distinct texts.")
    return out.finish(len(corpus) + ntool, len(nontriv), rule, floor=200)


_cli = None


def build_cli():
    global _cli
    if _cli is None:
        tgt = os.path.join(build.WORK, "tgt", "cli")
        lk = build._lock("cli.lock")
        try:
            p = build.sh(["cargo", "build", "--offline", "--manifest-path", os.path.join(build.REPO, "cli", "Cargo.toml")],
                         env={"CARGO_TARGET_DIR": tgt, "RUSTFLAGS": ""}, check=False)
        finally:
            lk.close()
        if p.returncode != 0:
            raise RuntimeError("peginator-cli build failed:\n" + p.stdout[-3000:])
        _cli = os.path.join(tgt, "debug", "peginator-cli")
    return _cli


_bs = None


def build_bscript():
    global _bs
    if _bs is None:
        tgt = os.path.join(build.WORK, "tgt", "bscript")
        p = build.cargo_build(os.path.join(build.rust_dir(), "bscript"), tgt)
        if p.returncode != 0:
            raise RuntimeError("bscript harness build failed:\n" + p.stdout[-3000:])
        _bs = os.path.join(tgt, "debug", "vfbscript")
    return _bs
