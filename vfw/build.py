"""Build / run infrastructure: tool builds (cargo, offline, path deps on /repo), real P-gen runs,
batch harness crates of generated parsers, parallel execution, log parsing."""
import hashlib
import json
import os
import re
import shutil
import signal
import subprocess
import sys
import time
from concurrent.futures import ThreadPoolExecutor

VERIF = os.path.dirname(os.path.dirname(os.path.abspath(__file__)))
REPO = os.path.abspath(os.environ.get("VERIF_REPO", "/repo"))
# a tree other than /repo (a scratch worktree holding a seeded change) gets its own work area, so that
# several trees can be checked at the same time without touching /repo
WORK = os.path.join(VERIF, ".work", "covrun") if os.environ.get("VF_COV") else os.path.join(VERIF, ".work") if REPO == "/repo" else os.path.join(VERIF, ".work", "alt-" + hashlib.sha256(REPO.encode()).hexdigest()[:10])
RUST_SRC = os.path.join(VERIF, "rust")
os.makedirs(WORK, exist_ok=True)


def _rust_dir():
    """harness crates with their path dependencies pointing at REPO"""
    if REPO == "/repo":
        return RUST_SRC
    dst = os.path.join(WORK, "rust")
    stamp = os.path.join(dst, ".stamp")
    want = hash_tree([RUST_SRC]) + REPO
    if not os.path.exists(stamp) or open(stamp).read() != want:
        if os.path.isdir(dst):
            shutil.rmtree(dst)
        shutil.copytree(RUST_SRC, dst, ignore=shutil.ignore_patterns("target", "Cargo.lock"))
        for d, _, fs in os.walk(dst):
            for f in fs:
                if f == "Cargo.toml":
                    q = os.path.join(d, f)
                    t = open(q).read().replace('"/repo/', '"%s/' % REPO).replace('"/verif/rust/', '"%s/' % dst)
                    open(q, "w").write(t)
        with open(stamp, "w") as f:
            f.write(want)
    return dst
NCPU = int(os.environ.get("VERIF_JOBS", str(os.cpu_count() or 8)))

BASE_ENV = dict(os.environ)
BASE_ENV["CARGO_NET_OFFLINE"] = "true"
BASE_ENV.pop("RUSTFLAGS", None)

RUST_KEYWORDS = {"as", "break", "const", "continue", "else", "enum", "extern", "false", "fn", "for", "if",
                 "impl", "in", "let", "loop", "match", "mod", "move", "mut", "pub", "ref", "return", "self",
                 "Self", "static", "struct", "super", "trait", "true", "type", "unsafe", "use", "where",
                 "while", "async", "await", "dyn", "abstract", "become", "box", "do", "final", "macro",
                 "override", "priv", "typeof", "unsized", "virtual", "yield", "try", "gen"}


def rid(name):
    return "r#" + name if name in RUST_KEYWORDS else name


def log(*a):
    print("[vf]", *a, file=sys.stderr, flush=True)


def sh(cmd, env=None, cwd=None, timeout=None, check=True, capture=True):
    e = dict(BASE_ENV)
    if env:
        e.update(env)
    p = subprocess.run(cmd, env=e, cwd=cwd, timeout=timeout, stdout=subprocess.PIPE if capture else None,
                       stderr=subprocess.STDOUT if capture else None, text=True)
    if check and p.returncode != 0:
        raise RuntimeError("command failed (%d): %s\n%s" % (p.returncode, " ".join(cmd), (p.stdout or "")[-4000:]))
    return p


# ------------------------------------------------------------------------------------------------
def hash_tree(paths, exts=(".rs", ".toml", ".ebnf", ".md", ".lock", ".py", ".sh")):
    h = hashlib.sha256()
    for root in paths:
        if os.path.isfile(root):
            files = [root]
        else:
            files = []
            for d, dirs, fs in os.walk(root):
                dirs[:] = sorted(x for x in dirs if x not in ("target", ".git", ".work", "__pycache__", "evidence", "replay"))
                for f in sorted(fs):
                    if f.endswith(exts):
                        files.append(os.path.join(d, f))
        for f in files:
            h.update(f.encode())
            with open(f, "rb") as fh:
                h.update(fh.read())
    return h.hexdigest()[:16]


_rust_cache = []


def rust_dir():
    if not _rust_cache:
        os.makedirs(WORK, exist_ok=True)
        _rust_cache.append(_rust_dir())
    return _rust_cache[0]


_repo_hash = None


def repo_hash():
    global _repo_hash
    if _repo_hash is None:
        _repo_hash = hash_tree([os.path.join(REPO, d) for d in ("runtime", "codegen", "macro", "cli")] +
                               [os.path.join(REPO, "grammar.ebnf"), os.path.join(REPO, "Cargo.lock")])
    return _repo_hash


def machinery_hash():
    return hash_tree([os.path.join(VERIF, "vfw"), RUST_SRC])


# ------------------------------------------------------------------------------------------------
HOOK_FLAGS = "--cfg peginator_verif"


def _lock(name):
    import fcntl
    os.makedirs(os.path.join(WORK, "locks"), exist_ok=True)
    f = open(os.path.join(WORK, "locks", name), "w")
    fcntl.flock(f, fcntl.LOCK_EX)
    return f


def cargo_build(crate_dir, target_dir, rustflags="", extra=(), toolchain=None, env=None, keep_going=False,
                json_messages=False, timeout=3600):
    """cargo build --offline with a shared target dir; Cargo.lock copied from /repo first"""
    lockf = os.path.join(crate_dir, "Cargo.lock")
    if not os.path.exists(lockf):
        shutil.copy(os.path.join(REPO, "Cargo.lock"), lockf)
    if os.environ.get("VF_COV"):
        # coverage run (tools/coverage_runtime.sh): everything is built by the nightly toolchain with coverage instrumentation
        toolchain = toolchain or "nightly"
        rustflags = (rustflags + " -Cinstrument-coverage").strip()
    cmd = ["cargo"] + (["+" + toolchain] if toolchain else []) + ["build", "--offline"] + list(extra)
    if keep_going:
        cmd.append("--keep-going")
    if json_messages:
        cmd.append("--message-format=json")
    e = {"CARGO_TARGET_DIR": target_dir, "RUSTFLAGS": rustflags}
    if env:
        e.update(env)
    lk = _lock(os.path.basename(target_dir) + ".lock")
    try:
        p = sh(cmd, env=e, cwd=crate_dir, check=False, timeout=timeout)
    finally:
        lk.close()
    return p


_tools = {}


def tool_cgdrv():
    """the P-gen driver linked against /repo/codegen as it is now"""
    if os.environ.get("VF_CGDRV_BIN"):
        return os.environ["VF_CGDRV_BIN"]  # an instrumented build (tools/coverage_codegen.sh)
    if "cgdrv" not in _tools:
        tgt = os.path.join(WORK, "tgt", "cgdrv")
        p = cargo_build(os.path.join(rust_dir(), "cgdrv"), tgt)
        if p.returncode != 0:
            raise RuntimeError("cgdrv build failed:\n" + p.stdout[-6000:])
        _tools["cgdrv"] = os.path.join(tgt, "debug", "cgdrv")
    return _tools["cgdrv"]


def tool_vfrt(flavor="dev-hooks"):
    """build the harness library (and the dbgtable helper) for a flavor; returns target dir"""
    key = "vfrt-" + flavor
    if key not in _tools:
        tgt = os.path.join(WORK, "tgt", flavor)
        p = cargo_build(os.path.join(rust_dir(), "vfrt"), tgt, rustflags=flavor_flags(flavor))
        if p.returncode != 0:
            raise RuntimeError("vfrt build failed:\n" + p.stdout[-6000:])
        _tools[key] = tgt
    return _tools[key]


def flavor_flags(flavor):
    if flavor == "dev-hooks":
        return HOOK_FLAGS
    if flavor == "dev-nohooks":
        return ""
    raise ValueError(flavor)


EXTRA_CPS = ["301", "2003", "212a", "20ac", "3a9", "1f600", "1f60f", "65e5", "672c", "7ff", "800", "ffff", "10000",
             "10ffff", "d7ff", "e000", "fffe", "2002", "2004", "2029", "2028", "feff", "200b", "1f601", "1f5ff"]


def debug_table():
    import rdebug
    tgt = tool_vfrt()
    path = os.path.join(WORK, "dbgtable.tsv")
    out = sh([os.path.join(tgt, "debug", "dbgtable")] + EXTRA_CPS).stdout
    with open(path, "w") as f:
        f.write(out)
    rdebug.load_table(path)
    return path


# ------------------------------------------------------------------------------------------------
def run_cgdrv(mode, jobs, workdir, timeout=600, cgdrv=None, nproc=None):
    """jobs: list of (id, grammar_path, out_path, derives, ctx). Returns {id: (class, fields...)}.
    A job that kills the driver process is classed ('abort', signal) and the driver restarts after it."""
    cgdrv = cgdrv or tool_cgdrv()
    nproc = nproc or NCPU
    chunks = [jobs[i::nproc] for i in range(nproc) if jobs[i::nproc]]
    results = {}

    def run_chunk(ci_chunk):
        ci, chunk = ci_chunk
        jf = os.path.join(workdir, "jobs_%s_%d.tsv" % (mode, ci))
        with open(jf, "w") as f:
            for j in chunk:
                f.write("\t".join(str(x) for x in j) + "\n")
        res = {}
        skip = 0
        while skip < len(chunk):
            try:
                p = subprocess.run([cgdrv, mode, jf, str(skip)], stdout=subprocess.PIPE, stderr=subprocess.PIPE,
                                   timeout=timeout, env=BASE_ENV)
                rc = p.returncode
                out = p.stdout.decode("utf-8", "replace")
                err = p.stderr.decode("utf-8", "replace")
            except subprocess.TimeoutExpired as ex:
                rc = "timeout"
                out = (ex.stdout or b"").decode("utf-8", "replace")
                err = ""
            open_job = None
            done = False
            for line in out.splitlines():
                f = line.split(" ")
                if f[0] == "BEGIN":
                    open_job = (f[1], int(f[2]))
                elif f[0] == "END":
                    res[f[1]] = tuple(f[2:])
                    open_job = None
                elif f[0] == "DONE":
                    done = True
            if done:
                break
            if open_job is None:
                raise RuntimeError("cgdrv died outside a job: rc=%s %s" % (rc, err[-500:]))
            cls = "timeout" if rc == "timeout" else "abort"
            res[open_job[0]] = (cls, str(rc), err[-300:])
            skip = open_job[1] + 1
        return res

    with ThreadPoolExecutor(max_workers=nproc) as ex:
        for r in ex.map(run_chunk, enumerate(chunks)):
            results.update(r)
    return results


def unhex(s):
    return "" if s == "-" else bytes.fromhex(s).decode("utf-8", "replace")


def hexs(s):
    return s.encode("utf-8").hex() if s else "-"


# ------------------------------------------------------------------------------------------------
BATCH_CARGO = """[package]
name = "vfbatch"
version = "0.0.0"
edition = "2021"
publish = false

[dependencies]
peginator = {{ path = "{repo}/runtime" }}
vfrt = {{ path = "{rust}/vfrt" }}
{extra_deps}

[profile.dev]
debug = false
incremental = false
opt-level = 0

[profile.release]
debug = false
incremental = false

{bins}
"""


_uniq = [0]


def unique_bin(prefix):
    """bin names are global inside the shared cargo target dir: make them unique per process and call"""
    _uniq[0] += 1
    return "%s_%d_%d" % (prefix, os.getpid(), _uniq[0])


def write_batch_crate(crate_dir, batches, forbid_unsafe=True, macro_dep=False):
    """batches: list of (bin_name, [GrammarUnit]); GrammarUnit has .gidx (global), .code_path, .exports
    (list of (rule, has_position)), .ctx (bool), .extra_rust (assertion module text or '')"""
    os.makedirs(crate_dir, exist_ok=True)
    bins = []
    for name, units in batches:
        d = os.path.join(crate_dir, name)
        os.makedirs(d, exist_ok=True)
        main = []
        if forbid_unsafe:
            main.append("#![forbid(unsafe_code)]")
        main.append("#![allow(warnings)]")
        arms = []
        line_map = []  # (first line, last line, gidx) of each module inside main.rs
        for u in units:
            m = "g%d" % u["gidx"]
            rs = os.path.join(d, m + ".rs")
            shutil.copy(u["code_path"], rs)
            rarms = []
            for (rule, has_pos) in u["exports"]:
                post = "|v| vfrt::log_position(v)" if has_pos else "|_v| {}"
                fn = "run_case_ctx" if u["ctx"] else "run_case"
                rarms.append('            "%s" => { vfrt::%s::<%s>(mode, input, budget, %s); true }' %
                             (rule, fn, rid(rule), post))
            main.append("mod %s {\n    include!(\"%s.rs\");\n%s\n    pub fn run(rule: &str, mode: vfrt::Mode, input: &str, budget: u64) -> bool {\n        match rule {\n%s\n            _ => false,\n        }\n    }\n}" %
                        (m, m, u.get("extra_rust", ""), "\n".join(rarms)))
            first = sum(x.count("\n") + 1 for x in main[:-1]) + 1
            line_map.append((first, first + main[-1].count("\n"), u["gidx"]))
            arms.append("        %d => %s::run(rule, mode, input, budget)," % (u["gidx"], m))
        main.append("fn dispatch(g: usize, rule: &str, mode: vfrt::Mode, input: &str, budget: u64) -> bool {\n    match g {\n%s\n        _ => false,\n    }\n}" % "\n".join(arms))
        main.append("fn main() { vfrt::main_seq(dispatch) }")
        with open(os.path.join(d, "main.rs"), "w") as f:
            f.write("\n".join(main) + "\n")
        with open(os.path.join(d, "linemap.json"), "w") as f:
            json.dump(line_map, f)
        bins.append('[[bin]]\nname = "%s"\npath = "%s/main.rs"\n' % (name, name))
    with open(os.path.join(crate_dir, "Cargo.toml"), "w") as f:
        f.write(BATCH_CARGO.format(repo=REPO, rust=rust_dir(), bins="\n".join(bins),
                                   extra_deps=('peginator_macro = { path = "%s/macro" }' % REPO) if macro_dep else ""))


def build_batch_crate(crate_dir, target_dir, rustflags, toolchain=None, extra=(), env=None, timeout=3600):
    """returns (ok_bins: {name: path}, failures: {bin: [(file, message)]})"""
    p = cargo_build(crate_dir, target_dir, rustflags=rustflags, keep_going=True, json_messages=True,
                    toolchain=toolchain, extra=extra, env=env, timeout=timeout)
    ok = {}
    failures = {}
    for line in p.stdout.splitlines():
        if not line.startswith("{"):
            continue
        try:
            m = json.loads(line)
        except ValueError:
            continue
        if m.get("reason") == "compiler-artifact" and m.get("executable") and m["target"]["kind"] == ["bin"]:
            ok[m["target"]["name"]] = m["executable"]
        elif m.get("reason") == "compiler-message" and m["message"].get("level") == "error":
            tname = m["target"]["name"]
            files = sorted({os.path.basename(s["file_name"]) for s in m["message"].get("spans", [])})
            for s in m["message"].get("spans", []):
                if os.path.basename(s["file_name"]) == "main.rs":
                    lm_path = os.path.join(crate_dir, tname, "linemap.json")
                    if os.path.exists(lm_path):
                        with open(lm_path) as lf:
                            for (a0, b0, gidx) in json.load(lf):
                                if a0 <= s["line_start"] <= b0:
                                    files.append("g%d.rs" % gidx)
            # expansion chains: include the outermost file too
            for s in m["message"].get("spans", []):
                e = s.get("expansion")
                while e:
                    files.append(os.path.basename(e["span"]["file_name"]))
                    e = e["span"].get("expansion")
            failures.setdefault(tname, []).append((sorted(set(files)), m["message"].get("rendered", "")[:1500]))
    if p.returncode != 0 and not failures and not ok:
        raise RuntimeError("batch build failed without diagnostics:\n" + p.stdout[-5000:])
    # the shared target dir would otherwise accumulate every batch binary ever built (hard links in deps/, fingerprints)
    _sweep_batch_artifacts(target_dir, crate_dir, keep=set(ok.values()))
    return ok, failures, p


def _sweep_batch_artifacts(target_dir, crate_dir, keep=()):
    import glob
    names = [d for d in os.listdir(crate_dir) if os.path.isdir(os.path.join(crate_dir, d))]
    for prof in ("debug", "release", os.path.join("x86_64-unknown-linux-gnu", "debug"), os.path.join("x86_64-unknown-linux-gnu", "release")):
        base = os.path.join(target_dir, prof)
        if not os.path.isdir(base):
            continue
        for n in names:
            for f in glob.glob(os.path.join(base, "deps", n + "-*")) + glob.glob(os.path.join(base, n + ".d")):
                if f not in keep:
                    try:
                        os.remove(f)
                    except OSError:
                        pass
        for f in glob.glob(os.path.join(base, ".fingerprint", "vfbatch-*")) + glob.glob(os.path.join(base, "incremental", "*")):
            shutil.rmtree(f, ignore_errors=True)


# ------------------------------------------------------------------------------------------------
def run_batch_bin(binpath, cases_path, log_path, ncases, timeout=900, env=None, wrapper=()):
    """run one batch binary over its cases; restart after a process-killing case.
    returns list of (case_index, 'crash', rc) for killed cases, and 'timeout' flag"""
    crashes = []
    skip = 0
    if os.path.exists(log_path):
        os.remove(log_path)
    timed_out = False
    e = dict(BASE_ENV)
    if env:
        e.update(env)
    while skip < ncases:
        try:
            p = subprocess.run(list(wrapper) + [binpath, cases_path, log_path, str(skip)], stdout=subprocess.DEVNULL,
                               stderr=subprocess.DEVNULL, timeout=timeout, env=e)
            rc = p.returncode
        except subprocess.TimeoutExpired:
            rc = "timeout"
        # find last B / DONE
        last_b = None
        done = False
        with open(log_path, "rb") as f:
            try:
                f.seek(-200000, os.SEEK_END)
            except OSError:
                f.seek(0)
            tail = f.read().decode("utf-8", "replace").splitlines()
        for line in reversed(tail):
            if line == "DONE":
                done = True
                break
            if line.startswith("B "):
                last_b = line.split(" ")
                break
        if done and rc == 0:
            break
        if last_b is None:
            raise RuntimeError("batch %s died before the first case (rc=%s)" % (binpath, rc))
        idx = int(last_b[3])
        with open(log_path, "a") as f:
            f.write("R %s %s\n" % ("timeout" if rc == "timeout" else "crash", rc))
        crashes.append((idx, last_b[2], rc))
        if rc == "timeout":
            timed_out = True
        skip = idx + 1  # note: remaining modes of the killed case are skipped too
    return crashes, timed_out


def rendering_trailer(log_path):
    """None (no trailer), 'same', or (before, after): the harness renders one fixed PrettyParseError before the first and
    after the last parse of the process"""
    try:
        with open(log_path, "rb") as f:
            try:
                f.seek(-20000, os.SEEK_END)
            except OSError:
                f.seek(0)
            tail = f.read().decode("utf-8", "replace").splitlines()
    except OSError:
        return None
    for line in reversed(tail):
        if line.startswith("Y "):
            f_ = line.split(" ")
            if f_[1] == "same":
                return "same"
            return (unhex(f_[2]), unhex(f_[3]))
    return None


def parse_log(log_path):
    """-> {case_id: {mode: record}}; record = dict(events, result, steps, calls, pos, ctx, thread, t0, t1)"""
    out = {}
    cur = None
    with open(log_path, encoding="utf-8", errors="replace") as f:
        for line in f:
            line = line.rstrip("\n")
            if not line:
                continue
            try:
                cur = _parse_log_line(line, cur, out)
            except (ValueError, IndexError):
                continue  # a line cut in two by the harness's log cap (or by a dying process)
    return out


def _parse_log_line(line, cur, out):
    if True:
        if True:
            t = line[0]
            f_ = line.split(" ")
            if t in "SOE" and cur is not None:
                # the bulk of a log; a line cut in two by the harness's log cap is skipped
                try:
                    if t == "S":
                        cur["events"].append(("S", f_[1], int(f_[2])))
                    elif t == "O":
                        cur["events"].append(("O", int(f_[1])))
                    else:
                        cur["events"].append(("E", int(f_[1]), unhex(f_[2])))
                except (ValueError, IndexError):
                    pass
                return cur
            if t == "B":
                cur = {"events": [], "result": None, "steps": None, "calls": [], "pos": None, "ctx": None,
                       "notes": 0}
                if len(f_) >= 7:
                    cur["thread"], cur["t0"], cur["t1"] = int(f_[4]), int(f_[5]), int(f_[6])
                out.setdefault(f_[1], {}).setdefault(f_[2], []).append(cur)
            elif cur is None:
                return cur
            elif t == "S":
                cur["events"].append(("S", f_[1], int(f_[2])))
            elif t == "O":
                cur["events"].append(("O", int(f_[1])))
            elif t == "E":
                cur["events"].append(("E", int(f_[1]), unhex(f_[2])))
            elif t == "I":
                cur["notes"] += 1
                cur["events"].append(("I", unhex(f_[1])))
            elif t == "R":
                if f_[1] == "ok":
                    cur["result"] = ("ok", unhex(f_[2]))
                elif f_[1] == "err":
                    cur["result"] = ("err", int(f_[2]), unhex(f_[3]))
                elif f_[1] == "panic":
                    cur["result"] = ("panic", unhex(f_[2]), unhex(f_[3]))
                else:
                    cur["result"] = (f_[1],) + tuple(f_[2:])
            elif t == "F":
                cur["steps"] = int(f_[1])
            elif t == "C":
                cur["calls"].append(("C", f_[1], unhex(f_[2]), f_[3], f_[4] == "1"))
                cur["events"].append(("U", "C", f_[1]))
            elif t == "K":
                cur["calls"].append(("K", f_[1], int(f_[2]), f_[3] == "1"))
                cur["events"].append(("U", "K", f_[1]))
            elif t == "X":
                if f_[4] == "ok":
                    cur["calls"].append(("X", f_[1], int(f_[2]), f_[3], ("ok", int(f_[5]), unhex(f_[6]))))
                else:
                    cur["calls"].append(("X", f_[1], int(f_[2]), f_[3], ("err", unhex(f_[5]))))
                cur["events"].append(("U", "X", f_[1]))
            elif t == "P":
                cur["calls"].append(("P", int(f_[1]), int(f_[2])))
                cur["events"].append(("P", int(f_[1]), int(f_[2])))
            elif t == "T":
                cur["pos"] = (int(f_[1]), int(f_[2]))
            elif t == "U":
                cur["ctx"] = int(f_[1])
            return cur
