"""Reference model M: a direct, naive PEG interpreter over the generator's AST (DESIGN.md App. C).
It is the oracle's executable half: observed executions of the real generated parsers are compared
with what M says; M itself is never the thing explored."""
from gast import *
import rdebug

BUILTIN_WS = b" \t\n\x0c\r"


class Drop(Exception):
    """the case is outside what the model judges (too expensive / dynamically ill-formed / unsupported)"""


def fnv1a32(bs):
    h = 0x811C9DC5
    for b in bs:
        h ^= b
        h = (h * 0x01000193) & 0xFFFFFFFF
    return h


def wordhash(s):
    total = 0
    cur = []
    for ch in s:
        if ch in " ,:(){}[]":
            if cur:
                total = (total + fnv1a32("".join(cur).encode())) & 0xFFFFFFFF
                cur = []
        else:
            cur.append(ch)
    if cur:
        total = (total + fnv1a32("".join(cur).encode())) & 0xFFFFFFFF
    return total


def decide(salt, s):
    return ((((wordhash(s) ^ salt) * 2654435761) & 0xFFFFFFFF) >> 16) % 4 != 0


def decide_char(salt, c):
    return (((((ord(c) * 2654435761) & 0xFFFFFFFF) ^ salt) >> 7) % 3) != 0


CHECK_SALT = {"chk0": 0x1111, "chk1": 0x2222, "chk2": 0x3333, "chk3": 0x4444}
CCHECK_SALT = {"cchk0": 0x51, "cchk1": 0x1234}


def base_fn(path):
    """function name as logged by the harness (context variants log the base name)"""
    n = path[-1]
    if n.endswith("c") and n[:-1] in CHECK_SALT:
        return n[:-1]
    if n.endswith("c") and (n[:-1].startswith("ext_") or n[:-1].startswith("probe_")):
        return n[:-1]
    return n


class Ok:
    __slots__ = ("end", "vals")

    def __init__(self, end, vals):
        self.end = end
        self.vals = vals  # list of (field, type, value-tree)


class RuleOk:
    __slots__ = ("end", "value")

    def __init__(self, end, value):
        self.end = end
        self.value = value


HUGE_BYTES = 1000
HUGE_STEP_CAP = 500000
HUGE_DEPTH = 200
MAX_DEPTH = 250


class Model:
    def __init__(self, g: Grammar, types=None, step_cap=20000):
        self.g = g
        self.types = types or check_types(g)
        self.rules = {r.name: r for r in g.rules}
        self.user_ws = g.rule("Whitespace") is not None
        self.step_cap = step_cap
        self._fields = {}
        for r in g.rules:
            if r.kind == "rule":
                self._fields[r.name] = self.types[r.name].fields

    # ---------------------------------------------------------------- one parse
    def parse(self, rule, s: str):
        """returns a dict with everything the monitors compare"""
        self.s = s
        self.b = s.encode("utf-8")
        self.n = len(self.b)
        # char at each boundary offset
        self.chars = {}
        off = 0
        for ch in s:
            l = len(ch.encode("utf-8"))
            self.chars[off] = (ch, l)
            off += l
        self.steps = 0
        # very long inputs (pipeline option huge_inputs) get a larger step budget but a small nesting budget, so that
        # the real parser's native stack is never the thing being tested
        self.cap_now = self.step_cap if self.n <= HUGE_BYTES else max(self.step_cap, HUGE_STEP_CAP)
        self.depth = 0
        self.att = []      # non-hidden failed attempts (offset, kind)
        self.att_all = []  # every failed attempt ever made
        self.ev = []       # ('S', rule, q) / ('O', rule, q, end) / ('E', rule, q)
        self.fn = {}       # (rule, q) -> set of outcomes
        self.calls = []    # user function calls: ('C', fn, argdebug, ret) ('K', fn, cp, ret) ('X', fn, q, outcome) ('P', id, q)
        self.memo = {}
        self.lr_active = set()
        self.lr_touched = False
        self.counters = {"choice_abandoned_after_progress": 0, "closure_iters": 0, "closure_stops": 0,
                         "opt_taken": 0, "opt_declined": 0, "la_at_eoi": 0, "cache_hits": 0,
                         "lr_growths": 0, "ws_skipped": 0, "check_fail": 0, "extern_fail": 0}
        r = self.call(rule, 0)
        out = {
            "ok": r is not None,
            "end": r.end if r is not None else None,
            "value": r.value if r is not None else None,
            "steps": self.steps,
            "att": self.att,
            "att_all": self.att_all,
            "fn": self.fn,
            "calls": self.calls,
            "counters": self.counters,
            "nev": len(self.ev),
        }
        return out

    def tick(self):
        self.steps += 1
        if self.steps > self.cap_now:
            raise Drop("model step cap")

    def fail(self, off, kind):
        self.att.append((off, kind))
        self.att_all.append((off, kind))
        return None

    # ---------------------------------------------------------------- whitespace
    def skip(self, p, skipping):
        if not skipping:
            return p
        if self.user_ws:
            r = self.call("Whitespace", p)
            if r is None:
                return None
            if r.end > p:
                self.counters["ws_skipped"] += 1
            return r.end
        q = p
        while q < self.n and self.b[q] in BUILTIN_WS:
            q += 1
        if q > p:
            self.counters["ws_skipped"] += 1
        return q

    # ---------------------------------------------------------------- rule calls
    def call(self, name, q):
        """call a rule at offset q (q is already after the caller's skip)"""
        self.tick()
        if name == "char":
            c = self.chars.get(q)
            if c is None:
                return self.fail(q, ("AnyChar",))
            return RuleOk(q + c[1], ("char", c[0]))
        r = self.rules.get(name)
        if r is None:
            if name == "Whitespace":
                e = q
                while e < self.n and self.b[e] in BUILTIN_WS:
                    e += 1
                return RuleOk(e, ("unit",))
            raise Drop("undefined rule " + name)
        if r.kind == "char":
            return self.call_char(r, q)
        if r.kind == "extern":
            return self.call_extern(r, q)
        self.ev.append(("S", name, q))
        self.depth += 1
        if self.depth > MAX_DEPTH or (self.depth > HUGE_DEPTH and self.n > HUGE_BYTES):
            raise Drop("nesting too deep (the native stack of the harness is not what is being tested)")
        try:
            if r.has("leftrec"):
                res = self.call_leftrec(r, q)
            elif r.has("memoize"):
                key = (name, q)
                if key in self.memo:
                    self.counters["cache_hits"] += 1
                    res = self.memo[key]
                else:
                    res = self.call_body(r, q)
                    self.memo[key] = res
            else:
                res = self.call_body(r, q)
        finally:
            self.depth -= 1
        in_lr = bool(self.lr_active)
        if res is None:
            self.ev.append(("E", name, q))
            self.fn.setdefault((name, q), set()).add(("err", in_lr))
        else:
            self.ev.append(("O", name, q, res.end))
            self.fn.setdefault((name, q), set()).add(("ok", res.end, in_lr))
        return res

    def call_leftrec(self, r, q):
        key = (r.name, q)
        if key in self.memo:
            self.counters["cache_hits"] += 1
            return self.memo[key]
        self.memo[key] = None  # the recursive reference fails at first
        self.lr_active.add(key)
        try:
            best = self.call_body(r, q)
            while best is not None:
                self.memo[key] = best
                mark = len(self.att)
                nxt = self.call_body(r, q)
                if nxt is not None and nxt.end > best.end:
                    best = nxt
                    self.counters["lr_growths"] += 1
                else:
                    break
            self.memo[key] = best
        finally:
            self.lr_active.discard(key)
        return best

    def call_body(self, r, q):
        skipping = not r.has("no_skip_ws")
        b = self.eval(r.body, q, skipping)
        if b is None:
            return None
        v = self.build(r, q, b)
        for path in r.checks():
            fnname = base_fn(path)
            d = rdebug.write(v)
            ret = decide(CHECK_SALT[fnname], d)
            self.calls.append(("C", fnname, d, ret))
            if not ret:
                self.counters["check_fail"] += 1
                return self.fail(b.end, ("Check", "::".join(path)))
        return RuleOk(b.end, v)

    def call_char(self, r, q):
        c = self.chars.get(q)
        checks = r.checks()
        if checks:
            if c is None:
                return self.fail(q, ("Class", r.name))
            for path in checks:
                fnname = path[-1]
                ret = decide_char(CCHECK_SALT[fnname], c[0])
                self.calls.append(("K", fnname, ord(c[0]), ret))
                if not ret:
                    self.counters["check_fail"] += 1
                    return self.fail(q, ("Class", r.name))
        mark = len(self.att)
        for p in r.parts:
            self.tick()
            ok = False
            if p[0] == "lit":
                ok = c is not None and c[0] == p[1]
            elif p[0] == "rng":
                ok = c is not None and p[1] <= c[0] <= p[2]
            else:
                sub = self.call(p[1], q)
                del self.att[mark:]
                ok = sub is not None
            if ok:
                return RuleOk(q + c[1], ("char", c[0]))
        return self.fail(q, ("Class", r.name))

    def call_extern(self, r, q):
        fnname = base_fn(r.func)
        rest = self.b[q:]
        res = extern_eval(fnname, rest)
        if fnname.startswith("probe_"):
            self.calls.append(("P", int(fnname[6:]), q))
            return RuleOk(q, ("str", ""))
        if res[0] == "err":
            self.calls.append(("X", fnname, q, ("err", res[1])))
            self.counters["extern_fail"] += 1
            return self.fail(q, ("Extern", res[1]))
        _, val, n = res
        self.calls.append(("X", fnname, q, ("ok", n, val)))
        return RuleOk(q + n, val)

    # ---------------------------------------------------------------- values
    def build(self, r, q, b: Ok):
        rt = self.types[r.name]
        if rt.kind == "string":
            return ("str", self.b[q:b.end].decode("utf-8"))
        if rt.kind == "stringpos":
            return ("struct", r.name, {"string": ("str", self.b[q:b.end].decode("utf-8")),
                                       "position": ("range", q, b.end)})
        if rt.kind == "unit":
            return ("ident", r.name)
        if rt.kind == "alias":
            f = rt.fields[0]
            vals = [v for (fn_, ty, v) in b.vals if fn_ == "_override"]
            return self.wrap(f, vals, None)
        if rt.kind == "enum":
            f = rt.fields[0]
            vals = [(ty, v) for (fn_, ty, v) in b.vals if fn_ == "_override"]
            if len(vals) != 1:
                raise Drop("model: enum override matched %d times" % len(vals))
            return ("call", vals[0][0], [vals[0][1]])
        fields = {}
        for f in rt.fields:
            if len(f.types) > 1:
                vals = [("call", ty, [v]) for (fn_, ty, v) in b.vals if fn_ == f.name]
            else:
                vals = [v for (fn_, ty, v) in b.vals if fn_ == f.name]
            fields[f.name] = self.wrap(f, vals, r.name)
        if rt.position:
            fields["position"] = ("range", q, b.end)
        return ("struct", r.name, fields)

    def wrap(self, f, vals, _rname):
        if f.arity == ONE:
            if len(vals) != 1:
                raise Drop("model: arity-One field %s matched %d times" % (f.name, len(vals)))
            return vals[0]
        if f.arity == OPTIONAL:
            if len(vals) > 1:
                raise Drop("model: Optional field %s matched %d times" % (f.name, len(vals)))
            return ("call", "Some", [vals[0]]) if vals else ("ident", "None")
        return ("list", list(vals))

    # ---------------------------------------------------------------- expressions
    def eval(self, e, p, sk, inc_stack=()):
        self.tick()
        if isinstance(e, Cho):
            for i, a in enumerate(e.alts):
                natt = len(self.att_all)
                r = self.eval(a, p, sk, inc_stack)
                if r is not None:
                    return r
            return None
        if isinstance(e, Seq):
            vals = []
            cur = p
            for part in e.parts:
                r = self.eval(part, cur, sk, inc_stack)
                if r is None:
                    if cur > p:
                        self.counters["choice_abandoned_after_progress"] += 1
                    return None
                cur = r.end
                if r.vals:
                    vals.extend(r.vals)
            return Ok(cur, vals)
        if isinstance(e, Lit):
            q = self.skip(p, sk)
            if q is None:
                return None
            return self.match_lit(e, q)
        if isinstance(e, Rng):
            q = self.skip(p, sk)
            if q is None:
                return None
            c = self.chars.get(q)
            if c is not None and e.a <= c[0] <= e.b:
                return Ok(q + c[1], [])
            return self.fail(q, ("Range", e.a, e.b))
        if isinstance(e, Eoi):
            q = self.skip(p, sk)
            if q is None:
                return None
            if q == self.n:
                return Ok(q, [])
            return self.fail(q, ("Eoi",))
        if isinstance(e, Ref):
            q = self.skip(p, sk)
            if q is None:
                return None
            r = self.call(e.rule, q)
            if r is None:
                return None
            if e.field is None:
                return Ok(r.end, [])
            return Ok(r.end, [("_override" if e.field == "@" else e.field, e.rule, r.value)])
        if isinstance(e, Inc):
            if e.rule in inc_stack:
                raise Drop("include cycle")
            return self.eval(self.rules[e.rule].body, p, sk, inc_stack + (e.rule,))
        if isinstance(e, Grp):
            return self.eval(e.body, p, sk, inc_stack)
        if isinstance(e, Opt):
            r = self.eval(e.body, p, sk, inc_stack)
            if r is None:
                self.counters["opt_declined"] += 1
                return Ok(p, [])
            self.counters["opt_taken"] += 1
            return r
        if isinstance(e, Clo):
            vals = []
            cur = p
            n = 0
            while True:
                r = self.eval(e.body, cur, sk, inc_stack)
                if r is None:
                    self.counters["closure_stops"] += 1
                    break
                if r.end == cur:
                    raise Drop("closure iteration without progress")
                cur = r.end
                vals.extend(r.vals)
                n += 1
                self.counters["closure_iters"] += 1
            if e.plus and n == 0:
                return None
            return Ok(cur, vals)
        if isinstance(e, Neg):
            mark = len(self.att)
            if p == self.n:
                self.counters["la_at_eoi"] += 1
            r = self.eval(e.expr, p, sk, inc_stack)
            del self.att[mark:]
            if r is not None:
                return self.fail(p, ("NegLA",))
            return Ok(p, [])
        if isinstance(e, Pos):
            mark = len(self.att)
            if p == self.n:
                self.counters["la_at_eoi"] += 1
            r = self.eval(e.expr, p, sk, inc_stack)
            if r is not None:
                del self.att[mark:]
                return Ok(p, [])
            return None
        raise TypeError(e)

    def match_lit(self, e: Lit, q):
        if e.s == "":
            return Ok(q, [])
        if e.insens:
            lit = e.s.lower() if e.s.isascii() else e.s
            lb = lit.encode("utf-8")
            seg = self.b[q:q + len(lb)]
            if len(seg) == len(lb) and bytes(x + 32 if 65 <= x <= 90 else x for x in seg) == lb:
                return Ok(q + len(lb), [])
            kind = ("Char", lit) if len(lit) == 1 else ("Str", lit)
            return self.fail(q, kind)
        lb = e.s.encode("utf-8")
        if self.b.startswith(lb, q):
            return Ok(q + len(lb), [])
        kind = ("Char", e.s) if len(e.s) == 1 else ("Str", e.s)
        return self.fail(q, kind)


def extern_eval(fnname, rest: bytes):
    """mirror of the harness extern functions: ('ok', value-tree, nbytes) | ('err', msg)"""
    if fnname in ("ext_ident", "ext_nested"):
        n = 0
        while n < len(rest) and 97 <= rest[n] <= 122:
            n += 1
        if n == 0:
            return ("err", "expected ident")
        return ("ok", ("str", rest[:n].decode()), n)
    if fnname == "ext_two":
        s = rest.decode("utf-8")
        if len(s) < 2:
            return ("err", "expected two chars")
        t = s[:2]
        return ("ok", ("str", t), len(t.encode("utf-8")))
    if fnname == "ext_zero" or fnname.startswith("probe_"):
        return ("ok", ("str", ""), 0)
    if fnname == "ext_num":
        n = 0
        while n < len(rest) and 48 <= rest[n] <= 57:
            n += 1
        if n == 0:
            return ("err", "expected number")
        v = 0
        for d in rest[:n]:
            v = (v * 10 + (d - 48)) & 0xFFFFFFFF
        return ("ok", ("call", "XNum", [("num", v)]), n)
    if fnname == "ext_cond":
        s = rest.decode("utf-8")
        if s and ord(s[0]) % 2 == 0:
            return ("ok", ("str", s[0]), len(s[0].encode("utf-8")))
        return ("err", "expected even char")
    raise Drop("unknown extern " + fnname)
