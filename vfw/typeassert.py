"""C03: exact-type assertion module generated from the *documented* mapping (gast.rule_type).
rustc accepting it next to the generated code is the observation."""
from gast import *
from build import rid


def _inner(owner, f: FieldDesc):
    if len(f.types) > 1:
        return "%s_%s" % (owner, f.name)
    (t, boxed), = f.types.items()
    base = "char" if t == "char" else rid(t)
    return "Box<%s>" % base if boxed else base


def _wrap(arity, inner):
    if arity == ONE:
        return inner
    if arity == OPTIONAL:
        return "Option<%s>" % inner
    return "Vec<%s>" % inner


def _enum_match(var, enum_name, types):
    arms = []
    for t, boxed in sorted(types.items()):
        base = "char" if t == "char" else rid(t)
        ty = "Box<%s>" % base if boxed else base
        arms.append("            %s::%s(x) => { let _: &%s = x; }" % (enum_name, rid(t), ty))
    return "        match %s {\n%s\n        }" % (var, "\n".join(arms))


def assertion_module(g: Grammar, derives=None):
    """Rust source of `mod vf_assert` for grammar g (to be placed next to the generated code)"""
    types = check_types(g)
    out = ["    mod vf_assert {", "        #![allow(warnings)]", "        use super::*;"]
    traits = derives if derives is not None else ["Debug", "Clone"]
    bound = " + ".join({"Debug": "std::fmt::Debug", "Clone": "Clone", "PartialEq": "PartialEq", "Eq": "Eq"}[d] for d in traits)
    if bound:
        out.append("        fn _traits<T: %s>() {}" % bound)
    n = 0
    for r in g.rules:
        rt = types[r.name]
        name = rid(r.name)
        n += 1
        body = []
        if rt.kind == "struct":
            pats = [rid(f.name) for f in rt.fields] + (["position"] if rt.position else [])
            body.append("        let %s { %s } = v;" % (name, ", ".join(pats)))
            for f in rt.fields:
                body.append("        let _: &%s = %s;" % (_wrap(f.arity, _inner(r.name, f)), rid(f.name)))
                if len(f.types) > 1:
                    en = "%s_%s" % (r.name, f.name)
                    body.append("        fn _e_%d_%s(e: &%s) {\n%s\n        }" % (n, f.name, en, _enum_match("e", en, f.types)))
                    if bound:
                        body.append("        _traits::<%s>();" % en)
            if rt.position:
                body.append("        let _: &std::ops::Range<usize> = position;")
                body.append("        let _: &std::ops::Range<usize> = peginator::PegPosition::position(v);")
            if bound:
                body.append("        _traits::<%s>();" % name)
        elif rt.kind == "unit":
            body.append("        let _: %s = %s;" % (name, name))
            if bound:
                body.append("        _traits::<%s>();" % name)
        elif rt.kind == "alias":
            f = rt.fields[0]
            body.append("        let _: &%s = v;" % _wrap(f.arity, _inner(r.name, f)))
        elif rt.kind == "enum":
            body.append(_enum_match("v", name, rt.fields[0].types))
            if rt.position:
                body.append("        let _: &std::ops::Range<usize> = peginator::PegPosition::position(v);")
            if bound:
                body.append("        _traits::<%s>();" % name)
        elif rt.kind == "string":
            body.append("        let _: &String = v;")
        elif rt.kind == "stringpos":
            body.append("        let %s { string, position } = v;" % name)
            body.append("        let _: &String = string;")
            body.append("        let _: &std::ops::Range<usize> = position;")
            body.append("        let _: &std::ops::Range<usize> = peginator::PegPosition::position(v);")
            if bound:
                body.append("        _traits::<%s>();" % name)
        elif rt.kind == "char":
            body.append("        let _: &char = v;")
        elif rt.kind == "extern":
            body.append("        let _: &%s = v;" % ("::".join(rt.ret) if rt.ret else "String"))
        out.append("        fn _a_%d(v: &%s) {\n    %s\n        }" % (n, name, "\n    ".join(body)))
    for r in g.exported():
        ctx = "&mut vfrt::Ctx" if g.user_ctx else "()"
        out.append("        fn _p_%s<T: peginator::PegParserAdvanced<%s>>() {}" % (r.name, ctx.replace("&mut", "&'static mut")))
        out.append("        fn _pp_%s() { _p_%s::<%s>(); }" % (r.name, r.name, rid(r.name)))
    out.append("    }")
    return "\n".join(out)


def shape_signature(g: Grammar):
    """distinctness key for C03 evidence: the multiset of type shapes"""
    types = check_types(g)
    sig = []
    for r in g.rules:
        rt = types[r.name]
        sig.append((rt.kind, rt.position, tuple((f.arity, len(f.types), tuple(sorted(f.types.values()))) for f in rt.fields)))
    return tuple(sorted(sig))


def nontrivial(g: Grammar):
    types = check_types(g)
    for rt in types.values():
        if rt.kind in ("alias", "enum"):
            return True
        for f in rt.fields:
            if f.arity != ONE or len(f.types) > 1 or any(f.types.values()):
                return True
    return False
