"""C11: pretty errors point at the line and column of the error position (oracle by definition)."""
import itertools
import os
import random
import re
import subprocess
import shutil

import build
from evidence import Outcome

ANSI = re.compile(r"\x1b\[[0-9;]*m")
ALPHA = ["a", "é", "😀", " ", "\t", "\n", "\r"]


def expected(text, pos):
    b = text.encode("utf-8")
    before = b[:pos].decode("utf-8")
    line_no = before.count("\n") + 1
    ls = before.rfind("\n") + 1  # char index of line start within `before`
    col = len(before) - ls + 1
    full = text
    start_chars = ls
    rest = full[start_chars:]
    nl = rest.find("\n")
    the_line = rest if nl < 0 else rest[:nl]
    return line_no, col, the_line


def judge(text, pos, fname, outline):
    """returns None if fine, else (signature, message)"""
    if outline.startswith("panic "):
        msg = build.unhex(outline[6:])
        return ("panic:" + msg[:60], "conversion panicked: %s" % msg)
    s = ANSI.sub("", build.unhex(outline[3:]))
    lines = s.split("\n")
    line_no, col, the_line = expected(text, pos)
    # layout: [specifics..., '--> loc', ' |  ', ' |  <line>', ' |  <caret>', '']
    loc_i = None
    for i, l in enumerate(lines):
        if l.startswith("--> "):
            loc_i = i
            break
    if loc_i is None:
        return ("format:no location line", "no location line in %r" % s)
    loc = lines[loc_i][4:]
    if fname is None:
        m = re.fullmatch(r"Line (\d+) character (\d+)", loc)
    else:
        m = re.fullmatch(re.escape(fname) + r":(\d+):(\d+)", loc)
    if not m:
        return ("format:location", "unparseable location %r" % loc)
    got_line, got_col = int(m.group(1)), int(m.group(2))
    if got_line != line_no:
        return ("line", "reports line %d, the position is on line %d" % (got_line, line_no))
    if got_col != col:
        return ("column", "reports column %d, the position is at column %d" % (got_col, col))
    # the printed source line may itself contain '\r' etc.; it is the text between the pipes
    rest = "\n".join(lines[loc_i + 2:])
    pipe = " |  "
    if not rest.startswith(pipe):
        return ("format:pipe", "source line not prefixed by the pipe: %r" % rest)
    body = rest[len(pipe):]
    printed = None
    for cand in (the_line, the_line.rstrip()):
        tail = "\n" + pipe
        if body.startswith(cand + tail):
            printed = cand
            caret_part = body[len(cand) + len(tail):]
            break
    if printed is None:
        # Rust's trim_end strips Unicode White_Space
        return ("printed_line", "printed line is not the line containing the position: want %r in %r" % (the_line, body))
    want_caret = " " * (col - 1) + "^"
    if caret_part.rstrip("\n") != want_caret:
        return ("caret", "caret line %r, expected %r" % (caret_part, want_caret))
    return None


def boundaries(text):
    out = [0]
    off = 0
    for ch in text:
        off += len(ch.encode("utf-8"))
        out.append(off)
    return out


def check_C11(tier, seed):
    out = Outcome("C11", tier, seed)
    tgt = os.path.join(build.WORK, "tgt", "pretty")
    p = build.cargo_build(os.path.join(build.rust_dir(), "pretty"), tgt)
    if p.returncode != 0:
        raise RuntimeError("pretty harness build failed:\n" + p.stdout[-3000:])
    binp = os.path.join(tgt, "debug", "vfpretty")
    # the runtime can be built without the `colored` dependency (default-features = false): its stand-in is a third rendering
    tgt_nc = os.path.join(build.WORK, "tgt", "pretty_nc")
    p2 = build.cargo_build(os.path.join(build.rust_dir(), "pretty"), tgt_nc, extra=["--no-default-features"])
    binp_nc = os.path.join(tgt_nc, "debug", "vfpretty") if p2.returncode == 0 else None
    if binp_nc is None:
        out.inconc("harness build without the colored feature failed")
    maxlen = 4 if tier == "quick" else 5
    cases = []
    for n in range(0, maxlen + 1):
        for tup in itertools.product(ALPHA, repeat=n):
            t = "".join(tup)
            for pos in boundaries(t):
                cases.append((t, pos, None))
                if n <= 3:
                    cases.append((t, pos, "src/g.ebnf"))
    n_exh = len(cases)
    rnd = random.Random("c11/%s" % seed)
    nrand = 300 if tier == "quick" else 3000
    pool = ["a", "b", "é", "😀", " ", "\t", "x", "日", "\r"]
    for _ in range(nrand):
        nl = rnd.randint(0, 30 if tier == "quick" else 300)
        lines = []
        for _ in range(nl):
            ll = rnd.choice([0, 1, 3, 10, 80, 500 if tier == "quick" else 2000])
            lines.append("".join(rnd.choice(pool) for _ in range(rnd.randint(0, ll))))
        sep = rnd.choice(["\n", "\r\n"])
        t = sep.join(lines) + (sep if rnd.random() < 0.5 else "")
        bs = boundaries(t)
        picks = {0, bs[-1]}
        # just before / after newlines, and random
        idx = [i for i, ch in enumerate(t) if ch == "\n"]
        for i in rnd.sample(idx, min(len(idx), 4)):
            picks.add(bs[i])
            picks.add(bs[i + 1])
        for _ in range(4):
            picks.add(rnd.choice(bs))
        for pos in picks:
            cases.append((t, pos, rnd.choice([None, "a b/ü.ebnf"])))
    wd = os.path.join(build.WORK, "c11")
    os.makedirs(wd, exist_ok=True)
    cf = os.path.join(wd, "cases.tsv")
    of = os.path.join(wd, "out.txt")
    with open(cf, "w") as f:
        for (t, pos, fn) in cases:
            f.write("%s\t%d\t%s\n" % (build.hexs(t), pos, build.hexs(fn) if fn else "-"))
    nontriv = set()
    seen_sig = {}
    coloured_outputs = 0
    # two renderings of every case: plain, and with colours forced on (what build scripts and terminals show); the
    # oracle reads the coloured one with the escape sequences removed - the caret must still be under the column
    for mode in ("plain", "colour") + (("no-colour-build",) if binp_nc else ()):
        env = dict(build.BASE_ENV)
        env.pop("NO_COLOR", None)
        if mode == "colour":
            env["CLICOLOR_FORCE"] = "1"
        else:
            env["NO_COLOR"] = "1"
        pr = subprocess.run([binp_nc if mode == "no-colour-build" else binp, cf, of], env=env, timeout=1800)
        if pr.returncode != 0:
            raise RuntimeError("pretty harness died rc=%s" % pr.returncode)
        with open(of) as f:
            for (t, pos, fn), line in zip(cases, f):
                line = line.rstrip("\n")
                if mode == "colour" and line.startswith("ok ") and "1b5b" in line:
                    coloured_outputs += 1
                if "\n" in t or any(ord(c) > 127 for c in t):
                    nontriv.add((t, pos, fn))
                v = judge(t, pos, fn, line)
                if v:
                    sig, msg = v
                    # one witness per class: (class, position relative to its line: start / end / middle / empty text)
                    ln, col, the_line = expected(t, pos)
                    where = "empty-text" if t == "" else ("line-start" if col == 1 and ln > 1 else ("line-end" if col == len(the_line) + 1 else "inside"))
                    key = "%s:%s%s" % (sig, where, "" if mode == "plain" else ":" + mode)
                    if key not in seen_sig:
                        seen_sig[key] = True
                        out.violation("pretty:" + key, "%s (text %r, position %d, file %r, %s rendering)" % (msg, t[:60], pos, fn, mode),
                                      {"text": t[:2000], "position": pos, "file": fn, "mode": mode, "observed": line[:2000], "expected": {"line": ln, "column": col, "source_line": the_line[:500]}})
    out.coverage["renderings"] = {"plain": len(cases), "colour_forced": len(cases), "outputs_with_escape_sequences": coloured_outputs, "built_without_colored_feature": len(cases) if binp_nc else 0}
    if coloured_outputs == 0:
        out.inconc("colour rendering not observed (forcing colours produced no escape sequences)")
    # ---- the two places that build a pretty error for users: the build-script helper and the command-line tool.  They must
    # hand the *grammar text* and the *grammar's file name* to the conversion: same oracle, position from the front end
    try:
        import c15
        cli = c15.build_cli()
        bs = c15.build_bscript()
        rd = os.path.join(wd, "routes")
        shutil.rmtree(rd, ignore_errors=True)
        os.makedirs(rd)
        bad = ["@export A = = 'a';\n", "@export A = 'a';\nB = 'b'\nC = 'c';\n", "# é comment 😀\n# another\n@export A = 'a' ;\n\nB = ( 'b' ;\n", "@export A = 'a'",
               "@export A = 'a';\r\nB = 'b' 'c' | ;\r\n", "\t@export A =\t'a' x: ;\n", "@export A = 'a';\n\n\n   B = 'é' 'ü' §;\n", "@export A = '\\q';\n",
               "@export A = 'a';\n" + "# pad\n" * 30 + "Z = {'z'} ) ;\n", ""]
        jobs = []
        for k, t in enumerate(bad):
            gp = os.path.join(rd, "bad%d.ebnf" % k)
            with open(gp, "w", encoding="utf-8", newline="") as f:
                f.write(t)
            jobs.append(("b%d" % k, gp, os.path.join(rd, "bad%d.ast" % k)))
        ra = build.run_cgdrv("ast", jobs, rd, nproc=1)
        route_checked = 0
        for k, t in enumerate(bad):
            r = ra.get("b%d" % k)
            if not r or r[0] != "parse_err":
                continue
            pos = int(r[2])
            gp = jobs[k][1]
            pb = subprocess.run([bs, "run", gp, os.path.join(rd, "o%d.rs" % k), "-", "-", "0", "-"], stdout=subprocess.PIPE, stderr=subprocess.PIPE, env=dict(build.BASE_ENV, NO_COLOR="1"), timeout=120)
            so = pb.stdout.decode("utf-8", "replace").strip()
            pc = subprocess.run([cli, gp], stdout=subprocess.PIPE, stderr=subprocess.PIPE, env=dict(build.BASE_ENV, NO_COLOR="1"), timeout=120)
            texts = []
            if so.startswith("ERR "):
                texts.append(("build-script helper", build.unhex(so[4:])))
            texts.append(("command-line tool", pc.stderr.decode("utf-8", "replace") + pc.stdout.decode("utf-8", "replace")))
            for route, msg in texts:
                i0 = msg.find("--> ")
                if i0 < 0:
                    out.violation("pretty-route:no-location:%s" % route, "%s: the error shown for a grammar with a syntax error has no location line: %r" % (route, msg[:200]), {"grammar_text": t, "message": msg[:1000]})
                    continue
                # the block starts one line above the arrow
                start = msg.rfind("\n", 0, max(0, i0 - 1))
                block = msg[start + 1:]
                v = judge(t, pos, gp, "ok " + build.hexs(block))
                route_checked += 1
                if v:
                    out.violation("pretty-route:%s:%s" % (route, v[0]), "%s: %s (grammar %r, error position %d)" % (route, v[1], t[:60], pos), {"grammar_text": t, "position": pos, "message": block[:1000], "route": route})
        out.coverage["route_level_errors_checked"] = route_checked
        shutil.rmtree(rd, ignore_errors=True)
    except subprocess.TimeoutExpired:
        out.inconc("route_level_watchdog")
    out.samples = [{"text": t, "position": pos, "file": fn} for (t, pos, fn) in (cases[5], cases[4000 % len(cases)], cases[-1])]
    out.samples[-1]["text"] = out.samples[-1]["text"][:200]
    out.coverage["bounded_exhaustive"] = {"alphabet": ALPHA, "max_len": maxlen, "cases": n_exh}
    out.coverage["random_long_texts"] = len(cases) - n_exh
    rule = ("(route level: ten invalid grammars through the build-script helper and the command-line tool, position from the front end, same oracle) + all strings of length <= %d over {a, é, 😀, space, tab, \\n, \\r} x all boundary positions 0..=len x {no file, file name (len<=3)} (exhaustive for that bound), "
            "plus random multi-line texts (LF and CRLF, lines up to %d chars) at positions 0 / len / just before and after newlines / random; oracle = the definition in the statement; every case rendered plain, with colours forced (escape sequences removed before judging), and by a build of the runtime without its `colored` feature. "
            "Non-trivial: text has a newline or a multi-byte character; distinct (text, position, file).") % (maxlen, 500 if tier == "quick" else 2000)
    return out.finish((3 if binp_nc else 2) * len(cases), len(nontriv), rule, exhaustive=False, floor=100,
                      extra={"exhaustive_part": True})
