"""C04: no panic, no split UTF-8 sequence, no out-of-input access.
quick : unicode-profile pipeline run under hook H1 (+ offset/substring invariants) and the direct
        built-in matcher table (every parameter x first character);
thorough: adds Miri, AddressSanitizer and valgrind-memcheck legs with the hooks OFF."""
import json
import os
import random
import re
import shutil
import subprocess
import tempfile

import build
import checks
import ggen
import grender
import inputs as inputs_mod
from gast import check_types
from evidence import Outcome


def builtin_table(out):
    tgt = os.path.join(build.WORK, "tgt", "builtins")
    p = build.cargo_build(os.path.join(build.rust_dir(), "builtins"), tgt, rustflags=build.HOOK_FLAGS)
    if p.returncode != 0:
        raise RuntimeError("builtins harness build failed:\n" + p.stdout[-3000:])
    pr = subprocess.run([os.path.join(tgt, "debug", "vfbuiltins")], stdout=subprocess.PIPE, stderr=subprocess.DEVNULL, env=build.BASE_ENV, timeout=600)
    n = 0
    nontriv = 0
    bad = {}
    for line in pr.stdout.decode("utf-8").splitlines():
        fn, param, ihex, res = line.split("\t")
        inp = bytes.fromhex(ihex).decode("utf-8")
        n += 1
        first = inp[0] if inp else None
        if fn == "lit":
            c = chr(int(param, 16))
            want = "ok %d" % len(c.encode()) if first == c else "no"
        elif fn == "ilit":
            c = chr(int(param, 16))
            want = "ok 1" if (first is not None and ord(first) < 128 and (first.lower() if "A" <= first <= "Z" else first) == c) else "no"
        elif fn == "char":
            want = "ok %d" % len(first.encode()) if first else "no"
        elif fn == "range":
            a, b = [chr(int(x, 16)) for x in param.split("-")]
            want = "ok %d" % len(first.encode()) if (first is not None and a <= first <= b) else "no"
        elif fn == "str":
            l = bytes.fromhex(param[:-1]).decode("utf-8")
            want = "ok %d" % len(l.encode()) if inp.startswith(l) else "no"
        elif fn == "istr":
            l = bytes.fromhex(param[:-1])
            ib = inp.encode()
            low = bytes(x + 32 if 65 <= x <= 90 else x for x in ib[:len(l)])
            want = "ok %d" % len(l) if (len(ib) >= len(l) and low == l) else "no"
        else:
            continue
        if first is not None and ord(first) > 127:
            nontriv += 1
        if res != want:
            key = "builtin:%s:%s" % (fn, "panic" if res == "panic" else "wrong-match")
            if key not in bad:
                bad[key] = (fn, param, inp, res, want)
    for key, (fn, param, inp, res, want) in bad.items():
        out.violation(key, "built-in matcher %s(%s) on input %r: observed %s, expected %s" % (fn, param, inp, res, want),
                      {"function": fn, "parameter": param, "input": inp, "observed": res, "expected": want})
    out.coverage["builtin_matcher_calls"] = n
    return n, nontriv


from c04guard import insensitive_guard_table


def check_C04(tier, seed):
    out, ev, nt, floor = checks.pipeline_check("C04", tier, seed)
    n, nn = builtin_table(out)
    ev += n
    nt += nn
    ng = insensitive_guard_table(out, tier)
    ev += ng
    nt += ng
    if tier == "thorough":
        sanitizer_legs(out, seed)
    return out.finish(ev, nt, checks.RULES["C04"] + " Plus the direct table of the runtime's built-in matchers (every literal / range parameter x every UTF-8 lead byte and boundary code point) under H1; thorough adds Miri / ASan / valgrind legs with hooks off.", floor=floor)


def small_workload(seed, wd, n_units, n_inputs):
    units, cases, texts = [], [], {}
    k = 0
    for i in range(n_units):
        prof = ["unicode", "userfn", "unicode", "position"][i % 4]
        for attempt in range(20):
            g = ggen.Gen(random.Random("c04s/%s/%d/%d" % (seed, i, attempt)), ggen.profile(prof)).grammar()
            if not g.user_ctx:
                break
        g.user_ctx = False
        text = grender.render(g, None)
        gp = os.path.join(wd, "g%d.ebnf" % i)
        with open(gp, "w", encoding="utf-8") as f:
            f.write(text)
        texts[i] = text
        types = check_types(g)
        units.append({"gidx": i, "gpath": gp, "code_path": os.path.join(wd, "g%d.rs" % i),
                      "exports": [(r.name, types[r.name].position) for r in g.exported()], "ctx": False})
        irnd = random.Random("c04i/%s/%d" % (seed, i))
        for r in g.exported():
            for s in inputs_mod.inputs_for(g, r.name, irnd, n_sent=6, n_total=n_inputs, unicode_heavy=True):
                cases.append(("c%d" % k, i, r.name, 1, 50000000, s))
                k += 1
    jobs = [("g%d" % u["gidx"], u["gpath"], u["code_path"], "-", "-") for u in units]
    r = build.run_cgdrv("gen", jobs, wd)
    units = [u for u in units if r["g%d" % u["gidx"]][0] == "ok"]
    good = {u["gidx"] for u in units}
    return units, [c for c in cases if c[1] in good], texts


def write_cases(path, cases):
    with open(path, "w") as f:
        for c in cases:
            f.write("%s\t%d\t%s\t%d\t%d\t%s\n" % (c[0], c[1], c[2], c[3], c[4], build.hexs(c[5])))


def find_bin(stdout):
    binp = None
    for line in stdout.splitlines():
        if line.startswith("{"):
            try:
                m = json.loads(line)
            except ValueError:
                continue
            if m.get("reason") == "compiler-artifact" and m.get("executable"):
                binp = m["executable"]
    return binp


def sanitizer_legs(out, seed):
    wd = tempfile.mkdtemp(prefix="vf04_", dir=build.WORK)
    legs = {}
    try:
        units, cases, texts = small_workload(seed, wd, 12, 24)
        # ---------------- Miri (hooks off, so UB is not masked by the assertion)
        mu = units[:6]
        gids = {u["gidx"] for u in mu}
        mcases = [c for c in cases if c[1] in gids][:480]
        crate = os.path.join(wd, "crate_miri")
        build.write_batch_crate(crate, [("t0", mu)])
        shutil.copy(os.path.join(build.REPO, "Cargo.lock"), os.path.join(crate, "Cargo.lock"))
        env = dict(build.BASE_ENV, MIRIFLAGS="-Zmiri-disable-isolation", CARGO_TARGET_DIR=os.path.join(build.WORK, "tgt", "miri04"), RUSTFLAGS="")
        nshard = 12
        shards = [mcases[i::nshard] for i in range(nshard)]
        # build once (first shard), then the rest in parallel
        from concurrent.futures import ThreadPoolExecutor
        ub = []
        done = 0
        failed = 0

        def run_shard(i):
            cp = os.path.join(wd, "miri_%d.tsv" % i)
            write_cases(cp, shards[i])
            lp = os.path.join(wd, "miri_%d.log" % i)
            try:
                pr = subprocess.run(["cargo", "+nightly", "miri", "run", "--offline", "--bin", "t0", "--", cp, lp], cwd=crate, env=env,
                                    stdout=subprocess.PIPE, stderr=subprocess.PIPE, timeout=2400)
            except subprocess.TimeoutExpired:
                return i, None, "timeout"
            return i, pr.returncode, pr.stderr.decode("utf-8", "replace")
        results = [run_shard(0)]
        with ThreadPoolExecutor(max_workers=nshard) as ex:
            results += list(ex.map(run_shard, range(1, nshard)))
        for i, rc, err in results:
            if rc is None:
                out.inconc("miri_watchdog_timeout")
                continue
            found = re.findall(r"error: (Undefined Behavior[^\n]*|[^\n]*data race[^\n]*|memory leaked[^\n]*)", err)
            if found:
                ub.append((i, found[0], err[-2500:]))
            elif rc != 0:
                failed += 1
                out.notes.append({"miri_shard_failed": err[-600:]})
            else:
                done += len(shards[i])
        for i, what, err in ub[:3]:
            out.violation("miri:" + what[:80], "Miri: %s" % what, {"stderr": err, "grammars": [texts[u["gidx"]] for u in mu]})
        if failed:
            out.inconc("miri_shard_failed", failed)
        legs["miri"] = {"parses_without_report": done, "grammars": len(mu), "shards": nshard, "ub_reports": len(ub)}
        # ---------------- AddressSanitizer (hooks off)
        crate = os.path.join(wd, "crate_asan")
        build.write_batch_crate(crate, [("t0", units)])
        p = build.cargo_build(crate, os.path.join(build.WORK, "tgt", "asan"), rustflags="-Zsanitizer=address -Cforce-frame-pointers=yes", toolchain="nightly",
                              extra=["--target", "x86_64-unknown-linux-gnu", "--message-format=json"], timeout=3600)
        binp = find_bin(p.stdout)
        if binp is None:
            out.inconc("asan_build_failed")
            out.notes.append({"asan_build": p.stdout[-600:]})
        else:
            cp = os.path.join(wd, "asan.tsv")
            write_cases(cp, cases)
            pr = subprocess.run([binp, cp, os.path.join(wd, "asan.log")], stdout=subprocess.DEVNULL, stderr=subprocess.PIPE, timeout=1800,
                                env=dict(build.BASE_ENV, ASAN_OPTIONS="detect_leaks=1:halt_on_error=1"))
            err = pr.stderr.decode("utf-8", "replace")
            reports = err.count("ERROR: AddressSanitizer") + err.count("ERROR: LeakSanitizer")
            if reports:
                fr = re.findall(r"#\d+ 0x[0-9a-f]+ in (\S+)", err)
                own = [f for f in fr if "peginator" in f][:2]
                out.violation("asan:" + "|".join(own), "AddressSanitizer report: %s" % err[:400], {"stderr": err[:3000]})
            elif pr.returncode != 0:
                out.inconc("asan_run_failed_rc_%s" % pr.returncode)
            legs["asan"] = {"parses_without_report": len(cases) if not reports and pr.returncode == 0 else 0, "grammars": len(units), "reports": reports}
            os.remove(binp)
        # ---------------- valgrind memcheck on the optimised harness (hooks off)
        crate = os.path.join(wd, "crate_rel")
        vu = units[:8]
        gids = {u["gidx"] for u in vu}
        vcases = [c for c in cases if c[1] in gids]
        build.write_batch_crate(crate, [("t0", vu)])
        p = build.cargo_build(crate, os.path.join(build.WORK, "tgt", "rel-nohooks"), rustflags="", extra=["--release", "--message-format=json"], timeout=3600)
        binp = find_bin(p.stdout)
        if binp is None:
            out.inconc("release_build_failed")
        else:
            cp = os.path.join(wd, "vg.tsv")
            write_cases(cp, vcases)
            pr = subprocess.run(["valgrind", "--error-exitcode=99", "--leak-check=no", "-q", binp, cp, os.path.join(wd, "vg.log")],
                                stdout=subprocess.DEVNULL, stderr=subprocess.PIPE, timeout=3000, env=build.BASE_ENV)
            err = pr.stderr.decode("utf-8", "replace")
            if pr.returncode == 99:
                out.violation("valgrind:" + (re.findall(r"==\d+== (Invalid [^\n]*|Conditional jump[^\n]*|Use of uninit[^\n]*)", err) or ["report"])[0][:60],
                              "valgrind memcheck report on the release harness: %s" % err[:400], {"stderr": err[:3000]})
            elif pr.returncode != 0:
                out.inconc("valgrind_run_failed_rc_%s" % pr.returncode)
            legs["valgrind_memcheck_release"] = {"parses_without_report": len(vcases) if pr.returncode == 0 else 0, "grammars": len(vu)}
            os.remove(binp)
    finally:
        shutil.rmtree(wd, ignore_errors=True)
    out.coverage["sanitizer_legs"] = legs
