"""Seeded random grammar generator with per-property feature profiles (DESIGN.md §2.5).
Generates freely, then keeps only grammars that pass gast.check_wellformed (rejection sampling),
so everything it returns is inside the properties' quantifiers."""
import random
from gast import *

RUST_KEYWORDS = ["as", "break", "const", "continue", "else", "enum", "extern", "false", "fn", "for", "if",
                 "impl", "in", "let", "loop", "match", "mod", "move", "mut", "pub", "ref", "return",
                 "static", "struct", "trait", "true", "type", "unsafe", "use", "where",
                 "while", "async", "await", "dyn", "abstract", "become", "box", "do", "final", "macro",
                 "override", "priv", "typeof", "unsized", "virtual", "yield", "try"]
# `self Self super crate` cannot be raw identifiers: outside the "names" quantifier of C03 for P-run

RULE_NAMES = ["Aa", "Bb", "Cc", "Dd", "Ee", "Ff", "Gg", "Hh", "Jj", "Kk", "Mm", "Nn", "Pp", "Qq", "Rr", "Tt",
              "Uu", "Vv", "Ww", "Xx", "Yy", "Zz", "Expr", "Term", "Item", "Node", "Leaf", "Tok", "Word", "Num"]
FIELD_NAMES = ["a", "b", "c", "d", "e", "f", "x", "y", "z", "lhs", "rhs", "items", "f1", "f2", "name", "val", "f_1", "my_field2", "x10", "a_b_c"]

DEFAULT_PROFILE = dict(
    nrules=(3, 7), depth=3,
    p_memo=0.0, p_position=0.25, p_noskip=0.3, p_export_extra=0.3,
    w_string=2, w_unit=1, w_alias=1, w_enum=1, w_char=1, w_extern=0, w_struct=5,
    p_check=0.0, p_ccheck=0.0, user_ctx=0.0,
    p_user_ws=0.0, p_include=0.1, p_lookahead=0.12, p_box=0.15, p_multitype=0.25,
    p_insens=0.12, p_unicode=0.1, p_keywords=0.0, p_eoi_root=0.6, p_empty_lit=0.02,
    leftrec=0.0, p_probe=0.0, p_fields_in_string=0.1,
)

PROFILES = {
    "core": {},
    "fields": dict(p_nullable_tail=0.25, p_nested_field_closure=0.4, p_multitype=0.4, p_box=0.25, w_struct=7, w_enum=2, w_alias=2, p_include=0.15),
    "types": dict(p_multitype=0.45, p_box=0.3, w_struct=7, w_enum=2, w_alias=2, p_include=0.2, p_keywords=0.35,
                  p_position=0.3, w_extern=1, nrules=(3, 8)),
    "unicode": dict(p_unicode=0.7, p_insens=0.2, w_char=3, w_string=3, p_ccheck=0.3, w_extern=1, p_position=0.4),
    # mostly character classes with multi-byte members, used through closures / choices so that every class is tried on many
    # characters (members, non-members, neighbours in the encoding)
    "charclass": dict(p_unicode=0.75, w_char=8, w_string=3, w_struct=3, w_unit=0, w_alias=1, w_enum=1, nrules=(3, 6), p_ccheck=0.2, p_lookahead=0.2, p_memo=0.2),
    # mostly @string rules of every body shape (single literals, case-insensitive keywords, closures, override fields, nested
    # @string rules), entered from skipping and non-skipping rules
    "strings": dict(p_keyword_rule=0.25, p_numberlike_string=0.25, p_string_trailing_neg=0.3, p_trailing_neg=0.2, w_string=9, w_struct=4, w_unit=1, w_char=2, w_extern=4, w_alias=1, w_enum=1, p_fields_in_string=0.3, p_noskip=0.5, p_insens=0.3, p_ws_lit=0.1,
                    p_position=0.35, p_single_lit_string=0.3, nrules=(3, 7)),
    "memo": dict(p_include=0.3, p_noskip=0.4, p_shared_prefix=0.35, p_memo=0.5, p_lookahead=0.2, nrules=(3, 7), p_check=0.3, p_ccheck=0.2, w_extern=4, w_char=2),
    "memofail": dict(p_shared_prefix=0.5, w_alias=3, p_memo=1.0, p_probe=0.7, p_lookahead=0.15, w_extern=3, nrules=(3, 6), p_check=0.35, p_ccheck=0.2, w_char=2),
    "dupfields": dict(p_rebind_shape=0.2, p_nested_field_closure=0.4, nrules=(2, 4), depth=4, small_fieldpool=3, p_multitype=0.85, w_struct=8, w_string=3, w_unit=0, w_alias=0,
                      w_enum=0, w_char=1, p_include=0.15, p_lookahead=0.03, p_noskip=0.1, dense_fields=True),
    "leftrec": dict(leftrec=1.0, p_memo=0.1, p_position=0.3, p_check=0.4, p_probe=0.5),
    "ws": dict(p_noskip=0.5, p_user_ws=0.45, p_include=0.25, w_string=3, p_position=0.3, p_ws_lit=0.15),
    "position": dict(p_keyword_rule=0.35, p_single_lit_string=0.3, p_insens=0.25, p_box=0.3, p_position=0.8, p_unicode=0.3, w_string=4, w_enum=3, p_memo=0.15, leftrec=0.15),
    "errors": dict(p_numberlike_string=0.35, w_string=4, p_lookahead=0.25, p_check=0.25, w_extern=4, w_char=2, p_ccheck=0.3, p_eoi_root=0.8),
    "include": dict(p_string_include=0.3, p_fields_in_string=0.5, w_string=4, p_user_ws=0.25, p_lonely_include=0.35, p_nest_include=0.6, p_name_family=0.3, p_include=0.6, p_noskip=0.4, p_position=0.3, p_memo=0.15, p_check=0.15, w_struct=8,
                    w_unit=2, w_alias=0, w_enum=1),
    "userfn": dict(p_check=0.6, p_ccheck=0.6, w_extern=4, w_char=4, user_ctx=0.4, w_string=2, w_enum=2, w_alias=2, leftrec=0.3),
    "trace": dict(p_memo=0.3, leftrec=0.3, p_check=0.3, w_extern=2, p_ccheck=0.2),
    "keywords": dict(p_keywords=0.8),
    # every feature at once: the combinations (memo x check, leftrec x position, extern x @string, ctx x include ...)
    # are where single-feature profiles are blind; one shared run of this profile is part of most quick tiers
    "mix": dict(p_string_include=0.06, p_lonely_include=0.08, p_nest_include=0.15, p_shared_prefix=0.2, p_memo=0.25, leftrec=0.3, p_check=0.35, p_ccheck=0.3, w_extern=2, w_char=2, user_ctx=0.25, p_user_ws=0.2,
                p_include=0.2, p_position=0.4, p_unicode=0.3, p_lookahead=0.15, p_multitype=0.35, p_box=0.2, w_enum=2,
                w_alias=1, p_noskip=0.35, p_keywords=0.1, p_insens=0.12, nrules=(3, 8), p_ws_lit=0.08, p_probe=0.5),
}


def profile(name):
    p = dict(DEFAULT_PROFILE)
    p.update(PROFILES[name])
    return p


ASCII_LITS = ["a", "b", "c", "ab", "abc", "ba", "bc", "x", "y", ",", "+", "-", "(", ")", "aa", "=", "xy", ":",
              "a1", "x_y", "ab-c", "if(", "b2b", "[a", "@b", "a b", "A", "U", "Z", "Ab", "aB", "X"]
WS_LITS = [" ", " b", "\n", "\tx", " =", "\r\n", "a ", "\x0cb", "  "]
UNI_LITS = ["é", "ß", "€", "😀", "ab€", "é́", "Ωx", "K", "ü", "日本", " ", " ", "߿", "ࠀ",
            "￿", "\U00010000", "\U0010ffff", "á", "\x7f", "\x80", "\xff"]
ASCII_RANGES = [("a", "c"), ("a", "z"), ("0", "9"), ("x", "z"), ("A", "Z"), ("b", "b"), (" ", "~"), ("c", "a"), ("A", "z"), ("0", "z"), (" ", " "),
                ("\t", "\r")]
UNI_RANGES = [("\x7f", "\x80"), ("a", "é"), ("à", "ÿ"), ("Ā", "߿"), ("ࠀ", "￿"),
              ("\U00010000", "\U0010ffff"), ("z", " "), ("😀", "😏"), ("\x00", "\x7f"), ("ÿ", "à"),
              # ASCII lower bound, upper bound beyond ASCII / Latin-1 / the BMP (classes like "anything printable up to ...")
              ("x", "\u074a"), ("]", "\U0010ffff"), (" ", "\u00ff"), ("A", "\u2003"), ("0", "\uffff"), ("#", "\u00e9")]
CHECK_FNS = ["chk0", "chk1", "chk2", "chk3"]
CCHECK_FNS = ["cchk0", "cchk1"]
EXTERNS = [("ext_ident", None), ("ext_two", None), ("ext_num", ["vfrt", "vfu", "XNum"]), ("ext_cond", None),
           ("ext_zero", None), ("ext_nested", None),
           # long form whose function result is only convertible into the declared type (`.into()` is documented for both forms)
           ("ext_ident", ["String"]), ("ext_two", ["String"])]


class Gen:
    def __init__(self, rnd: random.Random, prof: dict):
        self.r = rnd
        self.p = prof

    def coin(self, p):
        return self.r.random() < p

    # ------------------------------------------------------------------ terminals
    def lit(self):
        if self.coin(self.p["p_empty_lit"]):
            return Lit("")
        uni = self.coin(self.p["p_unicode"])
        s = self.r.choice(UNI_LITS if uni else ASCII_LITS)
        if self.coin(self.p.get("p_ws_lit", 0.03)):
            s = self.r.choice(WS_LITS)  # literals that begin/end with whitespace characters (also in skipping rules)
        elif self.coin(self.p.get("p_comp_lit", 0.2)):
            # compositional literal: length 1-4, characters drawn from mixed classes (case, digits, punctuation, multi-byte)
            cls = "abxyABXY019_-+(" + ("é€😀ß" if uni else "")
            s = "".join(self.r.choice(cls) for _ in range(self.r.choice([1, 1, 2, 2, 3, 4])))
        insens = (not uni or s.isascii()) and self.coin(self.p["p_insens"])
        if insens:
            s = "".join(c.upper() if self.coin(0.5) else c for c in s)
        return Lit(s, insens)

    def rng(self):
        uni = self.coin(self.p["p_unicode"])
        a, b = self.r.choice(UNI_RANGES if uni else ASCII_RANGES)
        return Rng(a, b)

    # ------------------------------------------------------------------ grammar
    def grammar(self) -> Grammar:
        for _ in range(200):
            try:
                g = self._grammar()
                check_wellformed(g)
                if self.coin(self.p.get("p_lonely_include", 0.0)):
                    g2 = self.lonely_include(g)
                    if g2 is not None:
                        try:
                            check_wellformed(g2)
                            check_types(g2)
                            g = g2
                        except Invalid:
                            pass
                if self.coin(self.p.get("p_nullable_tail", 0.08)):
                    g2 = self.nullable_tail(g)
                    if g2 is not None:
                        try:
                            check_wellformed(g2)
                            check_types(g2)
                            g = g2
                        except Invalid:
                            pass
                if self.coin(self.p.get("p_keyword_rule", 0.05)):
                    g2 = self.keyword_rule(g)
                    if g2 is not None:
                        try:
                            check_wellformed(g2)
                            check_types(g2)
                            g = g2
                        except Invalid:
                            pass
                if self.coin(self.p.get("p_string_include", 0.0)):
                    g2 = self.string_include(g)
                    if g2 is not None:
                        try:
                            check_wellformed(g2)
                            check_types(g2)
                            g = g2
                        except Invalid:
                            pass
                if self.coin(self.p.get("p_nest_include", 0.0)):
                    g2 = self.nest_includes(g)
                    if g2 is not None:
                        try:
                            check_wellformed(g2)
                            check_types(g2)
                            g = g2
                        except Invalid:
                            pass
                if self.p["p_ccheck"] >= 0.5:
                    g2 = self.wrapped_class(g)
                    if g2 is not None:
                        try:
                            check_wellformed(g2)
                            check_types(g2)
                            g = g2
                        except Invalid:
                            pass
                    g2 = self.memo_checked(g)
                    if g2 is not None:
                        try:
                            check_wellformed(g2)
                            check_types(g2)
                            g = g2
                        except Invalid:
                            pass
                return g
            except Invalid:
                continue
        raise RuntimeError("generator could not produce a well-formed grammar")

    def lonely_include(self, g):
        """a new rule whose body is one single element, included as the only content of an optional / closure / group
        ( [>One]  {>One}  {>One}+  [(>One)] ) somewhere in an existing rule"""
        import copy
        g = copy.deepcopy(g)
        hosts = [r for r in g.rules if r.kind == "rule" and not r.has("string") and self.kinds.get(r.name) == "struct"]
        if not hosts or g.rule("One") is not None:
            return None
        host = self.r.choice(hosts)
        chars = [r.name for r in g.rules if r.kind == "char"]
        x = self.r.random()
        if x < 0.3:
            el = self.lit_nonempty()
        elif x < 0.45:
            el = self.rng()
        elif x < 0.8:
            el = Ref(self.r.choice(chars + ["char"]), self.r.choice(self.fieldpool))
        else:
            el = Ref(self.r.choice(chars + ["char"]))
        if self.coin(0.15):
            el = Grp(Cho([Seq([el])]))
        one = Rule("One", Cho([Seq([el])]), (["no_skip_ws"] if self.coin(0.3) else []) + (["position"] if self.coin(0.2) else []))
        inc = Inc("One")
        piece = self.r.choice([Opt(Cho([Seq([inc])])), Clo(Cho([Seq([inc])])), Clo(Cho([Seq([inc])]), True), Opt(Cho([Seq([Grp(Cho([Seq([inc])]))])])),
                               Clo(Cho([Seq([Grp(Cho([Seq([inc])]))])]))])
        alt = self.r.choice(host.body.alts)
        alt.parts.insert(self.r.randint(0, len(alt.parts)), piece)
        g.rules.append(one)
        self.kinds["One"] = "struct"
        return g

    def memo_checked(self, g):
        """a rule that is both @memoize and @check, re-entered at the same position by the next alternative
        ( @memoize @check(f) @string MChk = {'a'..'z' | '0'..'9'}+;   MHost = m:MChk '<' | m:MChk '>' | ... ; ): the answer
        taken from the cache has to be the checked one.  Decided by a side stream derived from the grammar (see wrapped_class)."""
        import copy
        import hashlib
        side = random.Random("memo-checked/" + hashlib.sha256(repr(g).encode()).hexdigest())
        if side.random() >= 0.5:
            return None
        g = copy.deepcopy(g)
        hosts = [r for r in g.rules if r.kind == "rule" and not r.has("string") and self.kinds.get(r.name) == "struct"]
        if not hosts or any(g.rule(n) is not None for n in ("MChk", "MHost", "MWord")):
            return None
        host = side.choice(hosts)
        fn = ("check", ["vfrt", "vfu", side.choice(CHECK_FNS) + ("c" if self.user_ctx else "")])
        word = Cho([Seq([Clo(Cho([Seq([Rng("a", "z")]), Seq([Rng("0", "9")])]), True)])])
        new = []
        if side.random() < 0.6:
            d = ["memoize", fn, "string"]
            side.shuffle(d)
            new.append(Rule("MChk", word, d + (["no_skip_ws"] if side.random() < 0.3 else [])))
            self.kinds["MChk"] = "string"
        else:
            d = ["memoize", fn]
            side.shuffle(d)
            new.append(Rule("MChk", Cho([Seq([Ref("MWord", "w")] + ([Opt(Cho([Seq([Lit("'"), Ref("MWord", "w")])]))] if side.random() < 0.4 else []))]), d))
            new.append(Rule("MWord", word, ["string", "no_skip_ws"]))
            self.kinds["MChk"] = "struct"
            self.kinds["MWord"] = "string"
        marks = side.sample(["<", ">", "!", "=>", "..", "?"], 3)
        alts = [Seq([Ref("MChk", "m"), Lit(marks[0])]), Seq([Ref("MChk", "m"), Lit(marks[1])])]
        if side.random() < 0.5:
            alts.append(Seq([Lit(marks[2]), Ref("MChk", "n")]))
        if side.random() < 0.3:
            alts.insert(1, Seq([Pos(Ref("MChk")), Ref("MChk", "m"), Lit(marks[2] + marks[0])]))
        new.insert(0, Rule("MHost", Cho(alts), []))
        self.kinds["MHost"] = "struct"
        ref = Ref("MHost", side.choice(self.fieldpool))
        piece = side.choice([Clo(Cho([Seq([ref])])), Opt(Cho([Seq([ref])])), ref, ref])
        alt = side.choice(host.body.alts)
        alt.parts.insert(side.randint(0, len(alt.parts)), piece)
        g.rules.extend(new)
        return g

    def wrapped_class(self, g):
        """a character class that carries a check, reached only through a class without one
        ( @char @check(f) Cinner = 'a'..'m' | '0'..'9';   @char Cwrap = Cinner | '_'; ) and used as a repeated field of some
        rule: the check has to run for every character tried through the wrapper.  Decided by a side stream derived from the
        grammar, so that the generator's own random stream (and every other grammar) stays as it was."""
        import copy
        import hashlib
        side = random.Random("wrapped-class/" + hashlib.sha256(repr(g).encode()).hexdigest())
        if side.random() >= 0.6:
            return None
        g = copy.deepcopy(g)
        hosts = [r for r in g.rules if r.kind == "rule" and not r.has("string") and self.kinds.get(r.name) == "struct"]
        if not hosts or g.rule("Cwrap") is not None or g.rule("Cinner") is not None:
            return None
        host = side.choice(hosts)
        inner_parts = side.choice([[("rng", "a", "m"), ("rng", "0", "9")], [("rng", "A", "Z")], [("lit", "x"), ("lit", "y"), ("rng", "0", "7"), ("lit", "\u00e9")]])
        fn = ["vfrt", "vfu", side.choice(CCHECK_FNS)]
        inner = CharRule("Cinner", inner_parts, [fn] if side.random() < 0.5 else [], [])
        if not inner.checks_before:
            inner.checks_after.append(fn)
        wparts = [("ref", "Cinner")] + ([("lit", "_")] if side.random() < 0.6 else [])
        if side.random() < 0.3:
            wparts.reverse()
        wrap = CharRule("Cwrap", wparts, [], [])
        mid = None
        if side.random() < 0.3:
            # a chain of two unchecked wrappers
            mid = CharRule("Cmid", [("ref", "Cinner")], [], [])
            wrap.parts = [("ref", "Cmid") if p_ == ("ref", "Cinner") else p_ for p_ in wrap.parts]
        f = side.choice(self.fieldpool)
        ref = Ref("Cwrap", f)
        piece = side.choice([Clo(Cho([Seq([ref])])), Clo(Cho([Seq([ref])]), True), Opt(Cho([Seq([ref])])), ref])
        alt = side.choice(host.body.alts)
        alt.parts.insert(side.randint(0, len(alt.parts)), piece)
        g.rules.append(wrap)
        if mid is not None:
            g.rules.append(mid)
            self.kinds["Cmid"] = "char"
        g.rules.append(inner)
        self.kinds["Cwrap"] = "char"
        self.kinds["Cinner"] = "char"
        return g

    def keyword_rule(self, g):
        """a keyword token:  @string [@position] [@no_skip_ws] Kw = i'select';  used as a field of some rule - its value (and range)
        is the input's spelling of the keyword"""
        import copy
        g = copy.deepcopy(g)
        hosts = [r for r in g.rules if r.kind == "rule" and not r.has("string") and self.kinds.get(r.name) == "struct"]
        if not hosts or g.rule("Kw") is not None:
            return None
        host = self.r.choice(hosts)
        word = self.r.choice(["select", "AS", "let", "End", "fn", "iF"])
        dirs = ["string"] + (["position"] if self.coin(0.7) else []) + (["no_skip_ws"] if self.coin(0.6) else [])
        self.r.shuffle(dirs)
        g.rules.append(Rule("Kw", Cho([Seq([Lit(word, True)])]), dirs))
        self.kinds["Kw"] = "string"
        f = self.r.choice(self.fieldpool)
        alt = self.r.choice(host.body.alts)
        alt.parts.insert(self.r.randint(0, len(alt.parts)), Ref("Kw", f))
        return g

    def nullable_tail(self, g):
        """an optional at the very end of a rule whose body is a field over a rule that can match nothing
        ( [tail:Trailer]   Trailer = {marks:Mark} ): at the end of the input the optional still matches"""
        import copy
        g = copy.deepcopy(g)
        hosts = [r for r in g.rules if r.kind == "rule" and not r.has("string") and self.kinds.get(r.name) == "struct"]
        if not hosts or g.rule("Ntail") is not None:
            return None
        host = self.r.choice(hosts)
        chars = [r.name for r in g.rules if r.kind == "char"] + ["char"]
        x = self.r.random()
        if x < 0.5:
            body = Cho([Seq([Clo(Cho([Seq([Lit("~"), Ref(self.r.choice(chars), "marks")])]))])])
        elif x < 0.8:
            body = Cho([Seq([Opt(Cho([Seq([Lit("~")])]))])])
        else:
            body = Cho([Seq([Eoi()])])
        g.rules.append(Rule("Ntail", body, (["position"] if self.coin(0.3) else [])))
        self.kinds["Ntail"] = "struct"
        f = self.r.choice(self.fieldpool)
        tail = Opt(Cho([Seq([Ref("Ntail", f)])])) if self.coin(0.7) else Opt(Cho([Seq([Lit(";"), Ref("Ntail", f)]), Seq([Ref("Ntail", f)])]))
        alt = self.r.choice(host.body.alts)
        if alt.parts and isinstance(alt.parts[-1], Eoi):
            alt.parts.insert(len(alt.parts) - 1, tail)
        else:
            alt.parts.append(tail)
        return g

    def string_include(self, g):
        """a @string rule whose body declares named fields (ignored for the rule itself), pulled into a struct rule with `>`:
        at the include site the body is an ordinary body again and its fields belong to the includer"""
        import copy
        g = copy.deepcopy(g)
        hosts = [r for r in g.rules if r.kind == "rule" and not r.has("string") and self.kinds.get(r.name) == "struct"]
        if not hosts or g.rule("Sinc") is not None:
            return None
        host = self.r.choice(hosts)
        chars = [r.name for r in g.rules if r.kind == "char"] + ["char"]
        t = self.r.choice(chars)
        f1, f2 = self.r.sample(self.fieldpool, 2)
        x = self.r.random()
        if x < 0.4:
            body = Cho([Seq([Ref(t, f1), Clo(Cho([Seq([Lit("-"), Ref(t, f2)])]))])])
        elif x < 0.7:
            body = Cho([Seq([Lit("<"), Ref(t, f1), Opt(Cho([Seq([Lit(":"), Ref(t, f2)])])), Lit(">")])])
        else:
            body = Cho([Seq([Ref(t, f1), Ref(t, f1)]), Seq([Lit("="), Ref(t, f2)])])
        dirs = ["string"] + (["no_skip_ws"] if self.coin(0.5) else []) + (["position"] if self.coin(0.2) else [])
        g.rules.append(Rule("Sinc", body, dirs))
        self.kinds["Sinc"] = "string"
        inc = Inc("Sinc")
        piece = self.r.choice([inc, inc, Opt(Cho([Seq([inc])])), Grp(Cho([Seq([inc])])), Clo(Cho([Seq([Lit(","), inc])]))])
        alt = self.r.choice(host.body.alts)
        alt.parts.insert(self.r.randint(0, len(alt.parts)), piece)
        return g

    def nest_includes(self, g):
        """make an include chain of depth >= 2 ( R has >J, J gets >K ) and give the rules of the chain names that are
        prefixes of one another (Item inside ItemList, R1 inside R10) - in both directions"""
        import copy
        g = copy.deepcopy(g)
        rules = {r.name: r for r in g.rules if r.kind == "rule"}
        order = [r.name for r in g.rules]
        included = sorted({e.rule for r in rules.values() for e in subexprs(r.body) if isinstance(e, Inc)})
        included = [j for j in included if j in rules]
        if not included:
            return None
        j = self.r.choice(included)
        inner = [e.rule for e in subexprs(rules[j].body) if isinstance(e, Inc) and e.rule in rules]
        if inner:
            k = self.r.choice(inner)
        else:
            allowed = ("unit", "string") if self.kinds.get(j) in ("unit", "string") else ("struct", "unit", "string")
            cands = [n for n in order[order.index(j) + 1:] if n in rules and self.kinds.get(n) in allowed and n != j]
            if not cands:
                return None
            k = self.r.choice(cands)
            inc = Inc(k)
            alt = self.r.choice(rules[j].body.alts)
            piece = self.r.choice([inc, Opt(Cho([Seq([inc])])), Grp(Cho([Seq([inc])])), Clo(Cho([Seq([Lit(","), inc])]))])
            alt.parts.insert(self.r.randint(0, len(alt.parts)), piece)
        if self.coin(0.5):
            # a diamond: K is also reached along a second include path (directly from an includer of J, or from another
            # included body)
            outer = [r for r in rules.values() if r.name not in (j, k) and any(isinstance(e, Inc) and e.rule == j for e in subexprs(r.body))]
            if outer:
                host = self.r.choice(outer)
                ok_kind = self.kinds.get(host.name) not in ("unit", "string") or self.kinds.get(k) in ("unit", "string")
                if ok_kind and order.index(host.name) < order.index(k):
                    alt = self.r.choice(host.body.alts)
                    inc2 = Inc(k)
                    alt.parts.append(self.r.choice([inc2, Opt(Cho([Seq([inc2])])), Clo(Cho([Seq([Lit(";"), inc2])]))]))
        if j == k or self.kinds.get(j) is None or self.kinds.get(k) is None or j not in RULE_NAMES and k not in RULE_NAMES:
            return g
        base = k if k in RULE_NAMES else j
        suffix = self.r.choice(["List", "s", "1", "10", "_", "Tail"])
        taken = set(order)
        if base + suffix in taken:
            return g
        # outer name extends the inner one (the shape a cycle guard keyed on text would trip over), or the reverse
        mapping = {j: base + suffix, k: base} if self.coin(0.7) else {k: base + suffix, j: base}
        if any(v in taken and v not in mapping for v in mapping.values()):
            return g
        for r in g.rules:
            if r.name in mapping:
                r.name = mapping[r.name]
            if r.kind == "rule":
                for e in subexprs(r.body):
                    if isinstance(e, (Ref, Inc)) and e.rule in mapping:
                        e.rule = mapping[e.rule]
            elif r.kind == "char":
                r.parts = [("ref", mapping.get(pt[1], pt[1])) if pt[0] == "ref" else pt for pt in r.parts]
        return g

    def _names(self, n):
        names = []
        pool = list(RULE_NAMES)
        self.r.shuffle(pool)
        kw = list(RUST_KEYWORDS)
        self.r.shuffle(kw)
        for i in range(n):
            if self.coin(self.p["p_keywords"]) and kw:
                names.append(kw.pop())
            else:
                names.append(pool.pop())
        if n >= 2 and self.coin(self.p.get("p_name_family", 0.2)):
            # names that are prefixes of one another (Item / Items / ItemList / Item1 / Item10), at random places
            plain = [i for i, x in enumerate(names) if x in RULE_NAMES]
            if len(plain) >= 2:
                base = names[plain[0]]
                fam = [base, base + "s", base + "List", base + "1", base + "10", base + "_"]
                self.r.shuffle(fam)
                k = self.r.randint(2, min(len(plain), 4))
                for i, nm in zip(self.r.sample(plain, k), fam):
                    names[i] = nm
        return names

    def _grammar(self) -> Grammar:
        p = self.p
        n = self.r.randint(*p["nrules"])
        kinds_w = [("struct", p["w_struct"]), ("string", p["w_string"]), ("unit", p["w_unit"]),
                   ("alias", p["w_alias"]), ("enum", p["w_enum"]), ("char", p["w_char"]),
                   ("extern", p["w_extern"])]
        kinds = ["struct"]
        for _ in range(n - 1):
            kinds.append(self.r.choices([k for k, _ in kinds_w], [w for _, w in kinds_w])[0])
        # leaf-like kinds last
        order = {"struct": 0, "enum": 0, "alias": 0, "unit": 1, "string": 1, "char": 2, "extern": 2}
        kinds = [kinds[0]] + sorted(kinds[1:], key=lambda k: order[k])
        names = self._names(n)
        self.user_ctx = self.coin(p["user_ctx"])
        self.kinds = dict(zip(names, kinds))
        self.names = names
        self.index = {nm: i for i, nm in enumerate(names)}
        self.noskip = {nm: self.coin(p["p_noskip"]) for nm in names}
        self.noskip[names[0]] = self.coin(p["p_noskip"] * 0.5)
        self.positioned = {nm: self.coin(p["p_position"]) for nm in names}
        self.fieldpool = list(FIELD_NAMES)
        if p.get("small_fieldpool"):
            self.fieldpool = self.r.sample(FIELD_NAMES[:8], p["small_fieldpool"])
        if p["p_keywords"] > 0:
            # `impl` as a *field* name is outside the quantifier: a multi-type field `impl` of rule R makes the
            # generated enum `R_impl` collide with the generated module `R_impl` (a generated item, cf. C03)
            # a field named like a (unit-struct) rule is a collision among the user's own names: excluded too
            self.fieldpool += self.r.sample([k for k in RUST_KEYWORDS if k != "impl" and k not in names], 8)
        rules = []
        self.extra_rules = []
        self.probe_id = 0
        lr_cluster = None
        if self.coin(p["leftrec"]):
            lr_cluster = self.leftrec_cluster()
        for i, nm in enumerate(names):
            k = kinds[i]
            if k == "char":
                rules.append(self.char_rule(nm, i))
            elif k == "extern":
                fn, ret = self.r.choice(EXTERNS)
                if self.user_ctx:
                    fn = fn + "c"
                rules.append(ExternRule(nm, ["vfrt", "vfu", fn], ret))
            else:
                rules.append(self.normal_rule(nm, i, k, lr_cluster))
        rules += self.extra_rules
        if lr_cluster:
            rules += lr_cluster["rules"]
        if self.coin(p["p_user_ws"]):
            rules += self.user_whitespace()
        # a few rules may come in a different textual order
        if self.coin(0.3):
            head, tail = rules[:1], rules[1:]
            self.r.shuffle(tail)
            rules = head + tail
        g = Grammar(rules, user_ctx=self.user_ctx)
        self.export_unreachable(g)
        return g

    def export_unreachable(self, g):
        """rules not reachable from an exported rule become parse roots themselves (when their type allows)"""
        seen = set()
        todo = [r.name for r in g.exported()]
        while todo:
            n = todo.pop()
            if n in seen:
                continue
            seen.add(n)
            t = g.rule(n)
            if t is None:
                continue
            if t.kind == "rule":
                for e in subexprs(t.body):
                    if isinstance(e, (Ref, Inc)):
                        todo.append(e.rule)
            elif t.kind == "char":
                todo += [p[1] for p in t.parts if p[0] == "ref"]
        for t in g.rules:
            if t.kind == "rule" and t.name not in seen and t.name not in ("Whitespace", "Comment") \
                    and not t.has("string") and not t.has("export"):
                try:
                    k = rule_type(t, g).kind
                except Invalid:
                    continue
                if k in ("struct", "unit", "enum"):
                    t.directives.append("export")

    def user_whitespace(self):
        r = self.r
        style = r.choice([0, 1, 2, 3, 3, 3, 4, 4, 4])  # a Whitespace rule that can fail is the rarest in practice and the most fragile
        if style == 4:
            # a whitespace definition that can *fail* (tabs are forbidden / a marker ends the skippable region): the token that
            # asked for the skip then fails like any other non-match - optionals decline, closures stop, alternatives move on
            stop = r.choice(["\t", "~", "\x0c"])
            body = Cho([Seq([Clo(Cho([Seq([Lit(" ")]), Seq([Lit("\n")])])), Neg(Lit(stop))])])
            return [Rule("Whitespace", body, ["no_skip_ws"])]
        if style == 3:
            # pieces of the whitespace definition pulled in with `>` from rules that are not @no_skip_ws themselves (an included
            # body runs with the includer's settings, the directives of the included rule have no effect)
            nl = Rule("WsNewline", Cho([Seq([Lit("\r"), Lit("\n")]), Seq([Lit("\n")])]), [] if self.coin(0.7) else ["no_skip_ws"])
            com = Rule("WsComment", Cho([Seq([Lit("#"), Clo(Cho([Seq([Neg(Lit("\n")), Neg(Lit("\r")), Ref("char")])])), Inc("WsNewline")])]), [])
            body = Cho([Seq([Clo(Cho([Seq([Lit(" ")]), Seq([Lit("\t")]), Seq([Inc("WsNewline")]), Seq([Inc("WsComment")])]))])])
            return [Rule("Whitespace", body, ["no_skip_ws"]), nl, com]
        if style == 0:
            body = Cho([Seq([Clo(Cho([Seq([Ref("Comment")]), Seq([Lit("\t")]), Seq([Lit("\n")]), Seq([Lit("\x0c")]),
                                      Seq([Lit("\r")]), Seq([Lit(" ")])]))])])
            com = Rule("Comment", Cho([Seq([Lit("#"), Clo(Cho([Seq([Neg(Lit("\n")), Ref("char")])])), Lit("\n")])]),
                       ["no_skip_ws"])
            return [Rule("Whitespace", body, ["no_skip_ws"]), com]
        if style == 1:
            body = Cho([Seq([Clo(Cho([Seq([Lit(" ")]), Seq([Lit("_")])]))])])
            return [Rule("Whitespace", body, ["no_skip_ws"])]
        body = Cho([Seq([Clo(Cho([Seq([Rng(" ", " ")]), Seq([Lit("/*"), Clo(Cho([Seq([Neg(Lit("*/")), Ref("char")])])),
                                                             Lit("*/")])]))])])
        return [Rule("Whitespace", body, ["no_skip_ws"])]

    def char_rule(self, nm, i):
        parts = []
        later = [m for m in self.names[i + 1:] if self.kinds[m] == "char"]
        if self.coin(0.12 if self.p["p_unicode"] < 0.5 else 0.25):
            # a class whose every part starts in ASCII while one range ends far beyond it (JSON-style "any char from ']' up")
            wide = [rg for rg in UNI_RANGES if ord(rg[0]) < 0x80 <= ord(rg[1])]
            a, b = self.r.choice(wide)
            parts = [("rng", a, b)]
            for _ in range(self.r.randint(0, 2)):
                if self.coin(0.5):
                    parts.append(("lit", self.r.choice(ASCII_LITS)[0]))
                else:
                    ra = self.r.choice(ASCII_RANGES)
                    parts.append(("rng", ra[0], ra[1]))
            self.r.shuffle(parts)
            return CharRule(nm, parts, [], [])
        if later and self.coin(0.3):
            # a class that is (almost) only another class: NameChar = Letter | '_'   (the inner class may carry checks)
            parts = [("ref", self.r.choice(later))]
            if self.p["p_ccheck"] >= 0.5:
                # where user functions are the subject, the inner class of such a wrapper always carries a check (decided
                # without touching the generator's random stream)
                self.__dict__.setdefault("force_ccheck", set()).add(parts[0][1])
            if self.coin(0.6):
                parts.append(("lit", self.r.choice(ASCII_LITS)[0]))
            if self.coin(0.3):
                self.r.shuffle(parts)
            return CharRule(nm, parts, [], [])
        for _ in range(self.r.randint(1, 3) if not self.coin(0.05) else self.r.randint(8, 12)):
            x = self.r.random()
            later_char = [m for m in self.names[i + 1:] if self.kinds[m] == "char"]
            if x < 0.35:
                c = self.r.choice(UNI_LITS if self.coin(self.p["p_unicode"]) else ASCII_LITS)[0]
                parts.append(("lit", c))
            elif x < (0.62 if later_char else 0.8):
                rg = self.rng()
                parts.append(("rng", rg.a, rg.b))
            elif x < 0.93 and later_char:
                parts.append(("ref", self.r.choice(later_char)))
            else:
                parts.append(("ref", "char"))
        # neighbouring parts: a range that starts two code points after (or ends two before) another part leaves a gap of
        # exactly one character; one that starts right after it leaves none - whatever the code generator does with
        # adjacent parts, the gap character stays outside the class.  Side stream: the generator's own stream is untouched.
        gs = random.Random("gap-parts/%s/%d/%r" % (nm, i, parts))
        if gs.random() < 0.4:
            plain = [p_ for p_ in parts if p_[0] in ("lit", "rng")]
            if plain:
                p_ = gs.choice(plain)
                lo, hi = ord(p_[1]), ord(p_[-1])
                k = gs.choice([2, 2, 2, 1, 3])
                w = gs.randint(0, 3)
                a, b = (hi + k, hi + k + w) if gs.random() < 0.6 else (lo - k - w, lo - k)
                if 0x21 <= a <= b <= 0x10FFFF and not (a <= 0xDFFF and b >= 0xD800):
                    parts.insert(gs.randint(0, len(parts)), ("rng", chr(a), chr(b)))
        cb, ca = [], []
        if self.coin(self.p["p_ccheck"]):
            for _ in range(self.r.randint(1, 2)):
                (cb if self.coin(0.5) else ca).append(["vfrt", "vfu", self.r.choice(CCHECK_FNS)])
        if not cb and not ca and nm in self.__dict__.get("force_ccheck", ()):
            r2 = random.Random("forced-ccheck/%s/%d" % (nm, i))
            (cb if r2.random() < 0.5 else ca).append(["vfrt", "vfu", r2.choice(CCHECK_FNS)])
        return CharRule(nm, parts, cb, ca)

    def checks(self):
        out = []
        if self.coin(self.p["p_check"]):
            for _ in range(1 if self.coin(0.75) else 2):
                fn = self.r.choice(CHECK_FNS)
                out.append(("check", ["vfrt", "vfu", fn + ("c" if self.user_ctx else "")]))
        return out

    def normal_rule(self, nm, i, kind, lr_cluster):
        p = self.p
        d = []
        if self.noskip[nm]:
            d.append("no_skip_ws")
        if kind == "string":
            d.append("string")
        if i == 0 or (kind in ("struct", "enum", "unit") and self.coin(p["p_export_extra"])):
            d.append("export")
        if self.positioned[nm] and kind in ("struct", "string", "unit"):
            d.append("position")
        if kind == "enum" and self.positioned[nm]:
            d.append("position")  # valid only if all variants are positioned; else rejected & retried
        if self.coin(p["p_memo"]):
            d.append("memoize")
        d += self.checks()
        if d and self.coin(0.05):
            dup = self.r.choice([x for x in d if not isinstance(x, tuple)] or [None])
            if dup:
                d.append(dup)  # a directive written twice means the same as once
        self.r.shuffle(d)
        self.cur = nm
        self.cur_i = i
        self.used_fields = []
        if kind in ("struct",) and self.coin(p.get("p_rebind_shape", 0.0)):
            body = self.rebind_body()
        elif kind in ("struct",) and i > 0 and self.coin(0.12):
            body = Cho([Seq([self.ref("named", False) if self.coin(0.6) else self.lit_nonempty()])])  # a single inline element
        elif kind in ("struct",):
            body = self.cho(p["depth"] + (3 if self.coin(0.04) else 0), "named", consumed=False)
            if i == 0:
                if lr_cluster and self.coin(0.9):
                    ent = Ref(lr_cluster["entry"], self.r.choice(self.fieldpool))
                    body = Cho([Seq([Grp(body) if len(body.alts) > 1 else body.alts[0].parts[0] if len(body.alts[0].parts) == 1 else Grp(body), ent])]) if self.coin(0.3) else Cho([Seq([ent])])
                if self.coin(p["p_eoi_root"]):
                    body = Cho([Seq([Grp(body) if len(body.alts) > 1 else Grp(body), Eoi()])]) if len(body.alts) > 1 else Cho([Seq(body.alts[0].parts + [Eoi()])])
        elif kind == "unit":
            body = self.cho(max(1, p["depth"] - 1), "none", consumed=False)
        elif kind == "string":
            mode = "named" if self.coin(p["p_fields_in_string"]) else "none"
            body = self.string_body(mode)
            if self.coin(p.get("p_string_trailing_neg", 0.12)):
                # keyword-style: the text ends where a lookahead says it must ( 'let' !IdentChar ) - the value and the range of the
                # rule end in front of whatever the lookahead inspected or skipped
                la = Neg(self.lit_nonempty() if self.coin(0.6) else self.rng())
                for alt in body.alts:
                    if alt.parts:
                        alt.parts.append(la)
        elif kind == "alias":
            body = self.alias_body()
        elif kind == "enum":
            body = self.enum_body()
        if p["p_probe"] > 0 and "memoize" in d and self.coin(p["p_probe"]) and self.probe_id < 16:
            pn = "Probe%d" % self.probe_id
            self.extra_rules.append(ExternRule(pn, ["vfrt", "vfu", "probe_%d%s" % (self.probe_id, "c" if self.user_ctx else "")]))
            self.probe_id += 1
            body = Cho([Seq([Ref(pn), Grp(body)])])
        return Rule(nm, body, d)

    # ------------------------------------------------------------------ reference targets
    def targets(self, consumed, want_field):
        """rules that may be referenced here: later rules always; earlier/self only after consumption"""
        out = []
        for nm in self.names:
            j = self.index[nm]
            if j > self.cur_i or (consumed and self.coin(0.5)):
                if want_field and self.kinds[nm] == "alias" and False:
                    continue
                out.append(nm)
        return out

    def ref(self, mode, consumed):
        """a rule / field reference"""
        want_field = mode == "named" and self.coin(0.95 if self.p.get("dense_fields") else 0.7)
        if self.coin(0.12):
            tgt = "char"
        else:
            ts = self.targets(consumed, want_field)
            if not ts:
                return self.lit()
            tgt = self.r.choice(ts)
        if not want_field:
            if self.coin(0.05) and tgt != "char":
                return Ref("Whitespace")
            return Ref(tgt)
        # field name: reuse an existing one (multi-type / duplicates) or a fresh one
        if self.used_fields and self.coin(self.p["p_multitype"]):
            fname = self.r.choice(self.used_fields)
        else:
            fname = self.r.choice(self.fieldpool)
        if fname not in self.used_fields:
            self.used_fields.append(fname)
        boxed = self.coin(self.p["p_box"]) or (tgt != "char" and self.index.get(tgt, 99) <= self.cur_i and self.coin(0.8))
        if tgt == "char":
            boxed = False
        return Ref(tgt, fname, boxed)

    # ------------------------------------------------------------------ expressions
    def cho(self, depth, mode, consumed):
        n = self.r.choices([1, 2, 3], [5, 3, 1])[0] if depth > 0 else 1
        if depth > 0 and self.coin(0.015):
            n = self.r.randint(10, 13)  # wide choice (generated names choice_10 ..)
            return Cho([self.seq(0, mode, consumed) for _ in range(n)])
        alts = [self.seq(depth, mode, consumed) for _ in range(n)]
        if n >= 2 and self.coin(0.06):
            # an alternative made of lookaheads only ( !'x' | 'x' 'y' ), optionally with an optional / empty group next to it
            la = [Neg(self.lit_nonempty() if self.coin(0.6) else self.rng())]
            if self.coin(0.3):
                la.append(Opt(Cho([Seq([self.lit_nonempty()])])))
            if self.coin(0.2):
                la.insert(0, Neg(self.lit_nonempty()))
            alts[self.r.randrange(n - 1)] = Seq(la)
        if n >= 2 and self.coin(self.p.get("p_shared_prefix", 0.1)):
            # alternatives that start with the same rule reference: the second one re-enters that rule at the same
            # position (the situation memoization exists for)
            import copy
            pref = self.ref(mode, consumed)
            for a in alts:
                a.parts.insert(0, copy.deepcopy(pref))
        return Cho(alts)

    def seq(self, depth, mode, consumed):
        n = self.r.choices([0, 1, 2, 3, 4], [0.3, 3, 4, 3, 1])[0]
        if depth > 0 and self.coin(0.015):
            n = self.r.randint(10, 14)  # wide sequence (generated names part_10 ..)
            depth = 1
        parts = []
        for _ in range(n):
            e = self.part(depth, mode, consumed)
            parts.append(e)
            if not self._maybe_nullable(e):
                consumed = True
        if parts and self.coin(self.p.get("p_trailing_neg", 0.07)):
            # "keyword not followed by ..." : a lookahead as the last thing a sequence (often a whole rule) matches
            parts.append(Neg(self.lit_nonempty() if self.coin(0.6) else self.rng()))
        return Seq(parts)

    def _maybe_nullable(self, e):
        if isinstance(e, Lit):
            return e.s == ""
        if isinstance(e, Rng):
            return False
        if isinstance(e, Ref):
            return e.rule != "char" and self.kinds.get(e.rule) not in ("char",)
        if isinstance(e, Clo) and e.plus:
            return True
        return True

    def part(self, depth, mode, consumed):
        p = self.p
        r = self.r
        x = r.random()
        if depth <= 0:
            x = x * 0.55
        if p.get("dense_fields") and mode == "named":
            y = r.random()
            if y < 0.45:
                return self.ref(mode, consumed)
            if y < 0.65 and depth > 0:
                return Grp(self.cho(depth - 1, mode, consumed))
        if x < 0.25:
            return self.lit()
        if x < 0.32:
            return self.rng()
        if x < 0.55:
            return self.ref(mode, consumed)
        if x < 0.65:
            if self.coin(0.15):
                return Opt(self.tight_choice(mode, consumed))
            if self.coin(0.3):
                it = self.single_item(mode, consumed)
                if self.coin(0.3):
                    it = Grp(Cho([Seq([it])])) if self.coin(0.6) else Grp(self.tight_choice(mode, consumed, nest=False))  # [('c')]  [('a' | 'b')]
                return Opt(Cho([Seq([it])]))  # ['b']  [x:Item]  ['a'..'z']
            return Opt(self.cho(depth - 1, mode, consumed))
        if x < 0.77:
            if mode == "named" and self.coin(self.p.get("p_nested_field_closure", 0.12)):
                # one field collected by nested closures: every outer iteration contributes a varying number of matches
                #   { '[' { v:T } ']' }     { v:T { '|' v:T } ';' }+
                ts = [t for t in self.names[self.cur_i + 1:] if self.kinds.get(t) in ("char", "string")] + ["char"]
                t = self.r.choice(ts)
                f = self.r.choice(self.fieldpool)
                if f not in self.used_fields:
                    self.used_fields.append(f)
                if self.coin(0.5):
                    body = Seq([Lit(self.r.choice(["[", "(", "<"])), Clo(Cho([Seq([Ref(t, f)])])), Lit(self.r.choice(["]", ")", ";"]))])
                else:
                    body = Seq([Ref(t, f), Clo(Cho([Seq([Lit(self.r.choice(["|", ","])), Ref(t, f)])])), Lit(";")])
                return Clo(Cho([body]), self.coin(0.4))
            if self.coin(0.3):
                it = self.single_item(mode, consumed, nonnull=True)
                if self.coin(0.3):
                    it = Grp(Cho([Seq([it])]))  # {('b')}+  {(x:Item)}
                return Clo(Cho([Seq([it])]), self.coin(0.35))  # {'b'}  {x:Item}+
            return Clo(self.nonnull_cho(depth - 1, mode, consumed), self.coin(0.35))
        if x < 0.84:
            return Grp(self.cho(depth - 1, mode, consumed))
        if x < 0.84 + p["p_lookahead"]:
            inner = self.part(depth - 1, "none", consumed)
            if self.coin(0.3):
                # a lookahead over several tokens: its body can get some way into the input before it fails
                toks = [self.lit_nonempty() if self.coin(0.6) else self.rng() for _ in range(self.r.randint(2, 3))]
                if self.coin(0.3):
                    toks[0] = Ref(self.r.choice(self.targets(consumed, False) or ["char"]))
                inner = Grp(Cho([Seq(toks)]))
            if isinstance(inner, Ref) and inner.rule not in ("Whitespace",) and self.coin(0.4):
                # peek, then parse: the rule is first tried inside a lookahead and then for real at the same position
                real = Ref(inner.rule, self.r.choice(self.fieldpool), inner.rule != "char" and self.index.get(inner.rule, 99) <= self.cur_i) if (mode == "named" and self.coin(0.7)) else Ref(inner.rule)
                if real.field and real.field not in self.used_fields:
                    self.used_fields.append(real.field)
                peek = Pos(Grp(Cho([Seq([Ref(inner.rule), self.lit()])]))) if self.coin(0.5) else Pos(Ref(inner.rule))
                return Grp(Cho([Seq([peek, real])]))
            return Neg(inner) if self.coin(0.6) else Pos(inner)
        if x < 0.84 + p["p_lookahead"] + p["p_include"]:
            cands = [nm for nm in self.names[self.cur_i + 1:] if self.kinds[nm] in ("struct", "unit", "string")]
            if cands and mode != "none" and self.coin(0.25):
                # the include alone inside brackets: [>R]  {>R}+  ([>R])
                inc = Inc(r.choice(cands))
                return r.choice([Opt(Cho([Seq([inc])])), Opt(Cho([Seq([Grp(Cho([Seq([inc])]))])])), Clo(Cho([Seq([Lit("a"), inc])]), self.coin(0.5)), Grp(Cho([Seq([inc])]))])
            if mode == "none":
                cands = [nm for nm in cands if self.kinds[nm] in ("unit", "string")]
            if cands:
                return Inc(r.choice(cands))
            return self.lit()
        if x < 0.97:
            return self.lit()
        return Eoi()

    def rebind_body(self):
        """fields bound again inside nested groups, in an order that differs from the order of their first appearance
        in the rule:   a:T ( b:T ( a:T b:T ) )     k:T '=' v:T | '>' v:T ( k:T v:T ) ';'"""
        ts = [t for t in self.names[self.cur_i + 1:] if self.kinds.get(t) in ("char", "string")] + ["char"]
        t = self.r.choice(ts)
        a, b = self.r.sample(self.fieldpool, 2)
        for f in (a, b):
            if f not in self.used_fields:
                self.used_fields.append(f)

        def wrap(seq):
            y = self.r.random()
            inner = Cho([seq])
            if y < 0.5:
                return Grp(inner)
            if y < 0.75:
                return Opt(inner)
            return Clo(Cho([Seq([Lit(",")] + seq.parts)]), self.coin(0.3))
        A, B = (lambda: Ref(t, a)), (lambda: Ref(t, b))
        x = self.r.random()
        if x < 0.4:
            body = Cho([Seq([A(), wrap(Seq([B(), wrap(Seq([A(), B()]))]))])])
        elif x < 0.75:
            body = Cho([Seq([A(), Lit("="), B()]), Seq([Lit(">"), B(), wrap(Seq([A(), B()])), Lit(";")])])
        else:
            body = Cho([Seq([A(), B(), wrap(Seq([B(), wrap(Seq([A(), B(), A()]))]))])])
        if self.coin(0.3):
            body.alts[0].parts.append(self.lit())
        return body

    def single_item(self, mode, consumed, nonnull=False):
        """one literal / range / reference to a rule that always consumes (the body of the most common brackets)"""
        y = self.r.random()
        if y < 0.4:
            return self.lit_nonempty()
        if y < 0.55:
            return self.rng()
        if nonnull:
            return self.consuming_ref(mode)
        e = self.ref(mode, consumed)
        return e if not (isinstance(e, Lit) and e.s == "") else Lit("a")

    def tight_choice(self, mode, consumed, nest=True):
        """a choice of single items (literal / range / field / optional of one of those / nested group of the same kind) with
        at most one field name in the whole choice: the form that is expanded in place instead of getting a module"""
        fname = self.r.choice(self.fieldpool) if mode == "named" and self.coin(0.6) else None
        if fname and fname not in self.used_fields:
            self.used_fields.append(fname)

        def item():
            y = self.r.random()
            if y < 0.45 or not fname:
                return self.lit_nonempty() if self.coin(0.7) else self.rng()
            ts = [t for t in self.targets(consumed, True) if self.kinds.get(t) in ("char", "string", "struct", "unit")] or ["char"]
            t = self.r.choice(ts)
            return Ref(t, fname, t != "char" and self.index.get(t, 99) <= self.cur_i)
        alts = []
        for _ in range(self.r.randint(2, 3)):
            y = self.r.random()
            if y < 0.3:
                alts.append(Seq([Opt(Cho([Seq([item()])]))]))
            elif y < 0.42 and nest:
                alts.append(Seq([Grp(self.tight_choice(mode, consumed, nest=False))]))
            else:
                alts.append(Seq([item()]))
        return Cho(alts)

    def nonnull_cho(self, depth, mode, consumed):
        """a choice whose every arm starts with something consuming (closure bodies)"""
        n = self.r.choices([1, 2, 3], [5, 3, 1])[0]
        alts = []
        for _ in range(n):
            first = self.lit() if self.coin(0.55) else (self.rng() if self.coin(0.3) else self.consuming_ref(mode))
            if isinstance(first, Lit) and first.s == "":
                first = Lit("a")
            rest = self.seq(depth, mode, True).parts[:2]
            parts = [first] + rest
            if self.coin(0.3) and rest:
                # consuming element not first: lookahead / optional in front
                parts = [Neg(self.lit())] + parts if self.coin(0.5) else parts
            alts.append(Seq(parts))
        return Cho(alts)

    def consuming_ref(self, mode):
        cands = [nm for nm in self.names[self.cur_i + 1:] if self.kinds[nm] in ("char",)]
        if self.coin(0.3) or not cands:
            tgt = "char" if self.coin(0.3) else None
            if tgt is None:
                return self.lit() if self.coin(0.5) else self.rng()
        else:
            tgt = self.r.choice(cands)
        if mode == "named" and self.coin(0.7):
            fname = self.r.choice(self.fieldpool)
            if fname not in self.used_fields:
                self.used_fields.append(fname)
            return Ref(tgt, fname, False)
        return Ref(tgt)

    def string_body(self, mode):
        x = self.r.random()
        later = [nm for nm in self.names[self.cur_i + 1:]]
        if later and self.coin(0.12):
            # "All field declarations will be ignored" in @string rules - including override fields
            ts = self.r.sample(later + ["char"], min(len(later) + 1, self.r.randint(1, 3)))
            return Cho([Seq(([self.lit_nonempty()] if self.coin(0.3) else []) + [Ref(t, "@", False)]) for t in ts])
        ext = [nm for nm in later if self.kinds.get(nm) == "extern"]
        if ext and self.coin(0.45):
            # the string is (partly) consumed by a user function: the value is still the whole consumed slice
            e = Ref(self.r.choice(ext))
            pre = [self.lit_nonempty()] if self.coin(0.5) else []
            post = [self.lit()] if self.coin(0.4) else []
            if self.coin(0.3):
                return Cho([Seq(pre + [e] + post), Seq([Clo(Cho([Seq([self.rng()])]), True)])])
            return Cho([Seq(pre + [e] + post)])
        if self.coin(self.p.get("p_numberlike_string", 0.15)):
            # Number = {'0'..'9'}+ ['.' {'0'..'9'}+]     Word = {'a'..'z'}+ {'-' {'a'..'z'}+}   : the tail can start and fail
            rg = self.rng()
            sep = self.r.choice([".", "-", "_", "::"])
            head = Clo(Cho([Seq([rg])]), True)
            tail_body = Cho([Seq([Lit(sep), Clo(Cho([Seq([Rng(rg.a, rg.b)])]), True)])])
            return Cho([Seq([head, Opt(tail_body) if self.coin(0.5) else Clo(tail_body)])])
        if self.coin(self.p.get("p_single_lit_string", 0.12)):
            # the whole rule is one literal (keyword rules): the value is still the consumed slice of the input -
            # the input's spelling of a case-insensitive literal, including what the rule skipped in front of it
            l = self.lit_nonempty()
            if self.coin(0.5) and l.s.isascii() and any(c.isalpha() for c in l.s):
                l = Lit(l.s, True)
            return Cho([Seq([l])])
        if x < 0.4:
            rg = self.rng()
            return Cho([Seq([Clo(Cho([Seq([rg])]), True)])])
        if x < 0.6:
            return Cho([Seq([self.rng(), Clo(Cho([Seq([self.rng()]), Seq([self.lit_nonempty()])]))])])
        return self.cho(2, mode, consumed=False)

    def lit_nonempty(self):
        l = self.lit()
        return l if l.s else Lit("a")

    def alias_body(self):
        ts = [nm for nm in self.names[self.cur_i + 1:]] + ["char"]
        t = self.r.choice(ts)
        boxed = self.coin(self.p["p_box"]) and t != "char"
        one = Ref(t, "@", boxed)
        x = self.r.random()
        pre = [self.lit_nonempty()] if self.coin(0.4) else []
        post = [self.lit()] if self.coin(0.3) else []
        if x < 0.5:
            return Cho([Seq(pre + [one] + post)])
        if x < 0.7:
            return Cho([Seq(pre + [one, Clo(Cho([Seq([self.lit_nonempty(), Ref(t, "@", boxed)])]))])])
        if x < 0.85:
            return Cho([Seq(pre + [Opt(Cho([Seq([one])]))] + post)])
        return Cho([Seq(pre + [one] + post), Seq([self.lit_nonempty(), Ref(t, "@", boxed)])])

    def enum_body(self):
        ts = [nm for nm in self.names[self.cur_i + 1:]] + ["char"]
        if self.positioned.get(self.cur):
            # a @position enum needs positioned variants: the (later, not yet generated) variant rules are made @position
            pts = [nm for nm in self.names[self.cur_i + 1:] if self.kinds.get(nm) in ("struct", "string", "unit")]
            if len(pts) >= 2:
                ts = pts
                for nm in pts:
                    self.positioned[nm] = True
        k = min(len(ts), self.r.randint(2, 3))
        chosen = self.r.sample(ts, k)
        if len(set(chosen)) < 2:
            raise Invalid("enum needs two types")
        alts = []
        for t in chosen:
            pre = [self.lit_nonempty()] if self.coin(0.4) else []
            post = [self.lit()] if self.coin(0.2) else []
            boxed = self.coin(self.p["p_box"]) and t != "char"
            alts.append(Seq(pre + [Ref(t, "@", boxed)] + post))
        return Cho(alts)

    # ------------------------------------------------------------------ left recursion
    def leftrec_cluster(self):
        """a left-recursive cluster appended to the grammar; returns entry rule + rules"""
        r = self.r
        style = r.choice([0, 1, 2, 2, 2, 3, 4, 5, 6, 6])  # nested / re-entered left recursion is where most of the subtlety is
        ops = r.sample(["+", "-", "*", "x", "ab", "=>", ","], 3)
        # blank-looking operators: characters that Rust's char::is_whitespace / str::trim accept but the grammar does not
        # skip (VT, NBSP, EM SPACE), and - in a @no_skip_ws left-recursive rule - the skipped ones themselves: "the rest
        # of the input is blank" is not "end of input" for a growth step.  Decided by a side stream so that no other
        # generated grammar changes.
        side = random.Random("lr-blank-ops/%r/%r/%d" % (getattr(self, "fieldpool", None), ops, style))
        lr_no_skip = False
        if side.random() < (0.6 if style in (3, 4) else 0.25):
            if side.random() < 0.3:
                ops[0] = side.choice([" ", "\t", "\n ", " \r"])
                lr_no_skip = True
            else:
                ops[0 if side.random() < 0.75 else 1] = side.choice(["\x0b", "\u00a0", "\u2003", "+\u00a0", "\x0b\x0b", "\u2003-"])
        d_pos = (lambda: ["position"] if self.coin(self.p["p_position"]) else [])
        atom_body = r.choice([
            Cho([Seq([Clo(Cho([Seq([Rng("0", "9")])]), True)])]),
            Cho([Seq([Rng("a", "c")])]),
            Cho([Seq([Lit("b")])]),
        ])
        atom = Rule("LAtom", atom_body, ["string", "no_skip_ws"] + d_pos())
        rules = [atom]
        chk = (lambda: self.checks())
        if style == 0:
            # struct style, direct:  L = l:*L op r:LAtom | r:LAtom   (recursive alternative first / last)
            rec = Seq([Ref("LRec", "l", True), Lit(ops[0]), Ref("LAtom", "r")])
            rec2 = Seq([Ref("LRec", "l", True), Lit(ops[1]), Ref("LAtom", "r")])
            base = Seq([Ref("LAtom", "r")])
            alts = [rec, rec2, base] if self.coin(0.5) else [rec, base]
            if self.coin(0.25):
                alts = alts[::-1]
            elif self.coin(0.2):
                r.shuffle(alts)
            rules.append(Rule("LRec", Cho(alts), ["leftrec"] + d_pos() + chk()))
            entry = "LRec"
        elif style == 1:
            # enum style through plain rules (indirect)
            rules.append(Rule("LRec", Cho([Seq([Ref("LAdd", "@")]), Seq([Ref("LSub", "@")]), Seq([Ref("LAtom", "@")])]),
                              ["leftrec"]))
            rules.append(Rule("LAdd", Cho([Seq([Ref("LRec", "l", True), Lit(ops[0]), Ref("LAtom", "r")])]), d_pos() + chk()))
            rules.append(Rule("LSub", Cho([Seq([Ref("LRec", "l", True), Lit(ops[1]), Ref("LAtom", "r")])]), d_pos()))
            entry = "LRec"
        elif style == 2:
            # two nested left-recursive rules (calculator); optionally a prefix operator (a non-recursive alternative
            # tried before the recursive one) and shuffled alternative order
            r_alts = [Seq([Ref("LAdd", "@")]), Seq([Ref("LTerm", "@")])]
            t_alts = [Seq([Ref("LMul", "@")]), Seq([Ref("LFactor", "@")])]
            if self.coin(0.7):
                rules.append(Rule("LNeg", Cho([Seq([Lit(ops[2]), Ref("LAtom", "value")])]), d_pos()))
                t_alts.insert(0, Seq([Ref("LNeg", "@")]))
            if self.coin(0.25):
                r.shuffle(t_alts)
            if self.coin(0.2):
                r.shuffle(r_alts)
            rules.append(Rule("LRec", Cho(r_alts), ["leftrec"]))
            rules.append(Rule("LAdd", Cho([Seq([Ref("LRec", "l", True), Lit(ops[0]), Ref("LTerm", "r")])]), d_pos()))
            rules.append(Rule("LTerm", Cho(t_alts), ["leftrec"]))
            rules.append(Rule("LMul", Cho([Seq([Ref("LTerm", "l", True), Lit(ops[1]), Ref("LFactor", "r")])]), d_pos()))
            rules.append(Rule("LFactor", Cho([Seq([Ref("LAtom", "@")]), Seq([Lit("("), Ref("LRec", "@", True), Lit(")")])]), []))
            entry = "LRec"
        elif style == 6:
            # one left-recursive rule re-entered at later positions (brackets), with non-recursive alternatives
            # before and after the recursive one
            alts = [Seq([Ref("LQuoted", "@")]), Seq([Ref("LDot", "@")]), Seq([Ref("LParen", "@")]), Seq([Ref("LAtom", "@")])]
            if self.coin(0.3):
                r.shuffle(alts)
            rules.append(Rule("LRec", Cho(alts), ["leftrec"]))
            rules.append(Rule("LQuoted", Cho([Seq([Lit(ops[2]), Ref("LAtom", "name")])]), d_pos()))
            rules.append(Rule("LDot", Cho([Seq([Ref("LRec", "base", True), Lit(ops[0]), Ref("LAtom", "member")])]), d_pos() + chk()))
            rules.append(Rule("LParen", Cho([Seq([Lit("("), Ref("LRec", "inner", True), Lit(")")])]), d_pos()))
            entry = "LRec"
        elif style == 3:
            # postfix chain with optional parts, recursion through a nullable prefix
            rec = Seq([Opt(Cho([Seq([Lit("")])])) if self.coin(0.3) else Neg(Lit("!")), Ref("LRec", "l", True),
                       Lit(ops[0]), Opt(Cho([Seq([Ref("LAtom", "r")])]))])
            base = Seq([Ref("LAtom", "r")])
            rules.append(Rule("LRec", Cho([rec, base]), ["leftrec"] + d_pos()))
            entry = "LRec"
        elif style == 5:
            # a left-recursive @string rule (the value is the slice of the longest growth), used through a struct rule
            rules.append(Rule("LStr", Cho([Seq([Ref("LStr"), Lit(ops[0]), Ref("LAtom")]), Seq([Ref("LAtom")])]), ["leftrec", "string"] + d_pos()))
            rules.append(Rule("LRec", Cho([Seq([Ref("LStr", "s"), Opt(Cho([Seq([Lit(ops[1]), Ref("LStr", "t")])]))])]), d_pos()))
            entry = "LRec"
        else:
            # growth that can stop because the body no longer matches (lookahead on the rule itself)
            rec = Seq([Ref("LRec", "l", True), Lit(ops[0])])
            base = Seq([Neg(Ref("LRec")), Ref("LAtom", "r")]) if self.coin(0.5) else Seq([Ref("LAtom", "r"), Neg(Lit(ops[0] + ops[0]))])
            rules.append(Rule("LRec", Cho([rec, base]), ["leftrec"] + d_pos()))
            entry = "LRec"
        if self.coin(0.3):
            # the recursive reference comes right after a call to a rule that can match nothing (explicit-whitespace style,
            # optional marks): still left recursion
            nul_fields = self.coin(0.4)
            rules.append(Rule("LNul", Cho([Seq([Clo(Cho([Seq([Ref("LMark", "marks")] if nul_fields else [Lit("~")])]))])]), ["no_skip_ws"] if not nul_fields else []))
            if nul_fields:
                rules.append(Rule("LMark", Cho([Seq([Lit("~")])]), ["string"]))
            for ru in rules:
                if ru.name in ("LNul", "LMark", "LAtom"):
                    continue
                for alt in ru.body.alts:
                    if alt.parts and isinstance(alt.parts[0], Ref) and alt.parts[0].rule in ("LRec", "LTerm", "LStr") and alt.parts[0].field != "@":
                        alt.parts.insert(0, Ref("LNul", "marks") if (nul_fields and "string" not in ru.directives and self.coin(0.5)) else Ref("LNul"))
        for ru in rules:
            if "leftrec" in ru.directives and self.coin(0.25):
                ru.directives.insert(self.r.randint(0, len(ru.directives)), "memoize")
        # plain @memoize rules evaluated at the position where a left-recursive rule starts (atoms / factors):
        # their cached results must survive the growth of the seed
        for ru in list(rules):
            if "leftrec" not in ru.directives and ru.name in ("LAtom", "LFactor", "LMul", "LAdd", "LSub", "LNeg", "LQuoted", "LDot", "LParen") and self.coin(0.3):
                ru.directives.append("memoize")
                if self.p["p_probe"] > 0 and self.coin(self.p["p_probe"]) and self.probe_id < 16:
                    pn = "Probe%d" % self.probe_id
                    self.extra_rules.append(ExternRule(pn, ["vfrt", "vfu", "probe_%d%s" % (self.probe_id, "c" if self.user_ctx else "")]))
                    self.probe_id += 1
                    ru.body = Cho([Seq([Ref(pn), Grp(ru.body)])])
        # checks on the left-recursive rule itself: a check that rejects one growth step must stop the growth there
        for ru in rules:
            if "leftrec" in ru.directives and not ru.checks():
                ru.directives += self.checks()
        if self.coin(0.35):
            # base alternatives that can match the empty string (the seed may be an empty match that still grows)
            for ru in rules:
                if "leftrec" in ru.directives:
                    for alt in ru.body.alts:
                        s0 = set()
                        left_calls(alt, Grammar(rules), {x.name: False for x in rules}, s0)
                        if not (s0 & {"LRec", "LTerm", "LAdd", "LSub", "LMul", "LDot"}) and len(alt.parts) == 1 and isinstance(alt.parts[0], Ref) and alt.parts[0].rule == "LAtom":
                            ref = alt.parts[0]
                            if ref.field == "@":
                                continue  # an override must stay exactly-once
                            alt.parts[0] = Opt(Cho([Seq([ref])])) if self.coin(0.6) else Clo(Cho([Seq([ref])]))
        if self.coin(0.3):
            for ru in rules:
                if ru.name != "LAtom" and "no_skip_ws" not in ru.directives:
                    ru.directives.append("no_skip_ws")
        if lr_no_skip:
            for ru in rules:
                if "no_skip_ws" not in ru.directives:
                    ru.directives.append("no_skip_ws")
        return {"entry": entry, "rules": rules}


def generate(seed, profile_name, count):
    """yield `count` well-formed grammars"""
    prof = profile(profile_name)
    out = []
    for i in range(count):
        rnd = random.Random("%s/%s/%d" % (seed, profile_name, i))
        out.append(Gen(rnd, prof).grammar())
    return out
