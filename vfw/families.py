"""Hand-built grammar families for the packrat bound (C06): fully memoized grammars with shared prefixes whose
memoized rules *fail* after arbitrary depth - exponential without a failure cache, linear with one."""
from gast import *


def L(s):
    return Lit(s)


def probe_rules(n):
    return [ExternRule("Probe%d" % i, ["vfrt", "vfu", "probe_%d" % i]) for i in range(n)]


NFAM = 12


def fam(index):
    k = index % NFAM
    if k == 5:
        # long inputs: the whole list is re-attempted by the second alternative, far from where the first one failed
        item = Rule("Item", Cho([Seq([Ref("Probe0"), Grp(Cho([Seq([Rng("a", "z"), Opt(Cho([Seq([Rng("0", "9")])]))])]))])]), ["memoize", "string", "no_skip_ws"])
        stop = Rule("Stop", Cho([Seq([Ref("Probe1"), Grp(Cho([Seq([L("!")]), Seq([L("?")]), Seq([L(";")])]))])]), ["memoize", "no_skip_ws"])
        lst = Rule("Lst", Cho([Seq([Clo(Cho([Seq([Neg(Ref("Stop")), Ref("Item", "items")])]))])]), ["no_skip_ws"])
        s = Rule("Ss", Cho([Seq([Ref("Lst", "a"), L("!"), Eoi()]), Seq([Ref("Lst", "a"), L("?"), Eoi()]), Seq([Ref("Lst", "a"), L(";"), Eoi()])]), ["export", "no_skip_ws"])
        g = Grammar([s, lst, item, stop] + probe_rules(2))
        ins = []
        for n in (1, 10, 63, 64, 65, 100, 128, 200, 300):
            body = "".join("abcdefghij"[i % 10] + ("" if i % 3 else str(i % 10)) for i in range(n))
            ins += [body + "!", body + "?", body + ";", body + "#", body]
        return g, {"Ss": ins}, [("".join("abcdefghij"[i % 10] + ("" if i % 3 else str(i % 10)) for i in range(n)) + "#", n) for n in (64, 128, 300)]
    if k == 6:
        # long inputs with a skipping grammar and three alternatives sharing a long memoized prefix
        word = Rule("Word", Cho([Seq([Ref("Probe0"), Grp(Cho([Seq([Clo(Cho([Seq([Rng("a", "z")])]), True)])]))])]), ["memoize", "string", "no_skip_ws", "position"])
        pair = Rule("Pair", Cho([Seq([Ref("Probe1"), Grp(Cho([Seq([Ref("Word", "k"), L("="), Ref("Word", "v")]), Seq([Ref("Word", "k")])]))])]), ["memoize"])
        s = Rule("Ss", Cho([Seq([Clo(Cho([Seq([Ref("Pair", "p"), L(",")])])), L("end"), Eoi()]),
                            Seq([Clo(Cho([Seq([Ref("Pair", "p"), L(",")])])), L("stop"), Eoi()]),
                            Seq([Clo(Cho([Seq([Ref("Pair", "p"), L(",")])])), Opt(Cho([Seq([Ref("Pair", "p")])])), Eoi()])]), ["export"])
        g = Grammar([s, pair, word] + probe_rules(2))
        ins = []
        for n in (1, 8, 20, 40, 70, 120):
            body = " ".join(("k%s = v," % "") .replace("k", "key"[: 1 + i % 3]).replace("v", "val"[: 1 + i % 2]) if i % 2 else "x," for i in range(n))
            ins += [body + " end", body + " stop", body + " z", body + " =", body]
        return g, {"Ss": ins}, []
    if k == 7:
        # memoized wrappers around rules that are themselves cached (memoized struct / string rule, left-recursive rule):
        # the wrapper's own body (probe, brackets, lookahead) must not run again either
        word = Rule("Word", Cho([Seq([Ref("Probe2"), Grp(Cho([Seq([Clo(Cho([Seq([Rng("a", "z")])]), True)])]))])]), ["memoize", "string", "no_skip_ws"])
        lst = Rule("List", Cho([Seq([Ref("Probe1"), Grp(Cho([Seq([Ref("Word", "items"), Clo(Cho([Seq([L(","), Ref("Word", "items")])]))])]))])]), ["memoize"])
        stmt = Rule("Stmt", Cho([Seq([Ref("Probe0"), Ref("List", "@")])]), ["memoize"])
        expr = Rule("Expr", Cho([Seq([Ref("Expr", "l", True), L("+"), Ref("Word", "r")]), Seq([Ref("Word", "r")])]), ["leftrec"])
        paren = Rule("Paren", Cho([Seq([Ref("Probe3"), L("("), Ref("Expr", "@"), L(")")])]), ["memoize"])
        kw = Rule("Kw", Cho([Seq([L("if")]), Seq([L("do")])]), ["no_skip_ws"])
        guard = Rule("Guard", Cho([Seq([Ref("Probe4"), Neg(Ref("Kw")), Ref("Word", "@")])]), ["memoize", ("check", ["vfrt", "vfu", "chk0"])])
        s = Rule("Ss", Cho([Seq([Ref("Stmt", "s"), L("!"), Eoi()]), Seq([Ref("Stmt", "s"), L("?"), Eoi()]), Seq([Ref("Stmt", "s"), Eoi()]),
                            Seq([Ref("Paren", "p"), L("!")]), Seq([Ref("Paren", "p"), L("?")]), Seq([Ref("Paren", "p")]),
                            Seq([Ref("Guard", "g"), L("1")]), Seq([Ref("Guard", "g"), L("2")]), Seq([Ref("Guard", "g")])]), ["export"])
        g = Grammar([s, stmt, lst, word, paren, expr, guard, kw] + probe_rules(5))
        ins = ["a,b!", "a,b?", "a,b", "a , bc , d#", "(a+b)!", "(a+b)?", "(a+b)", "(a+b+c+d)#", "(a#", "x1", "x2", "x3", "memo2", "if1", "do", "hello", ""]
        return g, {"Ss": ins}, []
    if k == 8:
        # statement lists, hundreds to thousands of statements: the memoized Name is reached at the same offset first through
        # Call (one level deeper) and then directly; whatever a cache entry carries besides the result adds up over a long input
        name = Rule("Name", Cho([Seq([Ref("Probe0"), Grp(Cho([Seq([Clo(Cho([Seq([Rng("a", "z")])]), True)])]))])]), ["memoize", "string", "no_skip_ws"])
        call = Rule("Call", Cho([Seq([Ref("Probe1"), Ref("Name", "name"), L("("), Opt(Cho([Seq([Ref("Name", "arg")])])), L(")")])]), ["memoize"])
        stmt = Rule("Stmt", Cho([Seq([Ref("Call", "call"), L(";")]), Seq([Ref("Name", "var"), L(";")])]), [])
        prog = Rule("Ss", Cho([Seq([Clo(Cho([Seq([Ref("Stmt", "stmts")])])), Eoi()])]), ["export"])
        g = Grammar([prog, stmt, call, name] + probe_rules(2))
        ins = []
        for n in (1, 10, 100, 255, 256, 257, 500, 1000, 1021, 1023, 1024, 1025, 1030, 1500):
            ins += ["x;" * n + "f();", "x;" * n, ("x;f(y);" * (n // 2 + 1)) + "z"]
        return g, {"Ss": ins}, []
    if k == 9:
        # one memoized token rule reached at the same offset from a whitespace-skipping rule and from a @no_skip_ws rule
        # (the cache key is (rule, offset): what a caller skipped in front of the call is not part of it)
        word = Rule("Word", Cho([Seq([Ref("Probe0"), Grp(Cho([Seq([Clo(Cho([Seq([Rng("a", "z")])]), True)])]))])]), ["memoize", "string", "no_skip_ws"])
        num = Rule("Num", Cho([Seq([Ref("Probe1"), Grp(Cho([Seq([Clo(Cho([Seq([Rng("0", "9")])]), True)])]))])]), ["memoize", "string"])
        tight = Rule("Tight", Cho([Seq([Ref("Word", "first"), Ref("Word", "second")]), Seq([Ref("Word", "first"), Ref("Num", "n")])]), ["no_skip_ws"])
        loose = Rule("Loose", Cho([Seq([Ref("Word", "first"), Ref("Word", "second")]), Seq([Ref("Word", "first"), Ref("Num", "n")])]), [])
        s = Rule("Ss", Cho([Seq([Ref("Tight", "t"), Eoi()]), Seq([Ref("Loose", "l"), L("!"), Eoi()]), Seq([Ref("Tight", "t"), L("?"), Eoi()]), Seq([Ref("Loose", "l"), Eoi()])]), ["export"])
        s2 = Rule("Rev", Cho([Seq([Ref("Loose", "l"), L("!"), Eoi()]), Seq([Ref("Tight", "t"), Eoi()]), Seq([Ref("Loose", "l"), Eoi()])]), ["export"])
        g = Grammar([s, s2, tight, loose, word, num] + probe_rules(2))
        ins = ["foo bar", "foobar", "foo  bar", "foo bar!", "foo bar?", "foo 12", "foo12", "foo 12!", "foo\t12?", " foo bar", "foo bar ", "foo\nbar!", "a b", "a 1", "", "foo"]
        return g, {"Ss": ins, "Rev": ins}, []
    if k == 10:
        # memoized rules pulled in with `>`: the body is pasted under the includer's settings, the included rule's directives
        # (its own skip mode, its checks, its cache) have no effect there - with or without @memoize on it
        num = Rule("Num", Cho([Seq([Clo(Cho([Seq([Rng("0", "9")])]), True)])]), ["string", "no_skip_ws"])
        word = Rule("Word", Cho([Seq([Clo(Cho([Seq([Rng("a", "z")])]), True)])]), ["string", "no_skip_ws"])
        ver = Rule("Version", Cho([Seq([Ref("Probe0"), Ref("Num", "major"), L("."), Ref("Num", "minor")])]), ["memoize", "no_skip_ws"])
        tag = Rule("Tagged", Cho([Seq([Ref("Probe1"), Ref("Word", "t"), Opt(Cho([Seq([L("#"), Ref("Num", "n")])]))])]), ["memoize", ("check", ["vfrt", "vfu", "chk1"])])
        loose = Rule("Loose", Cho([Seq([Ref("Probe2"), L("<"), Ref("Word", "w"), L(">")])]), ["memoize"])
        s = Rule("Ss", Cho([Seq([Ref("Word", "name"), L("="), Inc("Version"), L(";"), Eoi()]),
                            Seq([Ref("Word", "name"), L("="), Inc("Version"), L("!"), Eoi()]),
                            Seq([Ref("Word", "name"), L(":"), Inc("Tagged"), Eoi()]),
                            Seq([Ref("Word", "name"), L(":"), Inc("Tagged"), L("!"), Eoi()])]), ["export"])
        s2 = Rule("Tight", Cho([Seq([L("["), Inc("Loose"), L("]")]), Seq([L("["), Inc("Loose"), L(")")])]), ["export", "no_skip_ws"])
        g = Grammar([s, s2, ver, tag, loose, num, word] + probe_rules(3))
        ins = ["a = 1 . 2;", "a=1.2;", "a = 1.2 !", "a = 12 . 345;", "a = 1 .2", "k : foo", "k : foo # 7", "k:bar#12!", "k : zz !", "q : memo", "x = 1", ""]
        ins2 = ["[<ab>]", "[< ab >]", "[<ab>)", "[ <ab>]", "[<a b>]", "[<x> ]"]
        return g, {"Ss": ins, "Tight": ins2}, []
    if k == 11:
        # one position reached along different paths - through a user (extern) function, through literals, through a
        # character class: the memoized rule tried there afterwards is the same (rule, position) pair every time
        ext = ExternRule("Word", ["vfrt", "vfu", "ext_ident"])
        tail = Rule("Tail", Cho([Seq([Ref("Probe0"), Ref("Num", "n")])]), ["memoize"])
        num = Rule("Num", Cho([Seq([Ref("Probe1"), Grp(Cho([Seq([Clo(Cho([Seq([Rng("0", "9")])]), True)])]))])]), ["memoize", "string", "no_skip_ws"])
        s = Rule("Ss", Cho([Seq([Ref("Tail", "t"), L("#"), Eoi()]),
                            Seq([Ref("Word", "w"), Ref("Tail", "t"), L("!"), Eoi()]),
                            Seq([L("abc"), Ref("Tail", "t"), L("?"), Eoi()]),
                            Seq([Clo(Cho([Seq([Rng("a", "z")])]), True), Ref("Tail", "t"), L(";"), Eoi()]),
                            Seq([Ref("Word", "w"), Ref("Tail", "t"), Eoi()])]), ["export", "no_skip_ws"])
        g = Grammar([s, tail, num, ext] + probe_rules(2))
        ins = ["abc123?", "abc123!", "abc123;", "abc123", "abc?", "abc", "xy7;", "xy7#", "q1", "abc12x", "", "12#", "7", "ab1!", "zz99"]
        return g, {"Ss": ins}, []
    if k == 0:
        # nested brackets, three alternatives sharing the prefix '(' A
        a = Rule("Aa", Cho([Seq([Ref("Probe0"), Grp(Cho([
            Seq([L("("), Ref("Aa", "a", True), L(")")]),
            Seq([L("("), Ref("Aa", "a", True), L("]")]),
            Seq([L("("), Ref("Aa", "a", True), L("}")]),
            Seq([L("a")])]))])]), ["memoize"])
        s = Rule("Ss", Cho([Seq([Ref("Aa", "a"), Eoi()])]), ["export"])
        g = Grammar([s, a] + probe_rules(1))
        ins = []
        for n in (1, 2, 3, 4, 6, 8, 10, 12, 16, 20, 24):
            ins += ["(" * n + "a", "(" * n + "a" + ")" * n, "(" * n + "a" + "]" * n, "(" * n + "a" + "}" * (n - 1), "(" * n]
        return g, {"Ss": ins}, [("(" * n + "a", n) for n in (6, 12, 24)]
    if k == 1:
        # expression grammar with right recursion and shared Term prefix
        e = Rule("Ee", Cho([Seq([Ref("Probe0"), Grp(Cho([
            Seq([Ref("Tt", "t"), L("+"), Ref("Ee", "e", True)]),
            Seq([Ref("Tt", "t"), L("-"), Ref("Ee", "e", True)]),
            Seq([Ref("Tt", "t")])]))])]), ["memoize"])
        t = Rule("Tt", Cho([Seq([Ref("Probe1"), Grp(Cho([
            Seq([L("("), Ref("Ee", "e", True), L(")")]),
            Seq([L("x")])]))])]), ["memoize"])
        s = Rule("Ss", Cho([Seq([Ref("Ee", "e"), Eoi()])]), ["export"])
        g = Grammar([s, e, t] + probe_rules(2))
        ins = []
        for n in (1, 2, 3, 4, 6, 8, 10, 12, 14):
            ins += ["(" * n + "x" + ")" * n, "(" * n + "x" + ")" * (n - 1), "(" * n + "x" + ")" * n + "+", "(" * n + "x" + ")" * n + "-x+"]
        return g, {"Ss": ins}, [("(" * n + "x" + ")" * (n - 1), n) for n in (4, 8, 14)]
    if k == 2:
        # memoized rule probed by a lookahead and then matched for real, in a closure
        a = Rule("Aa", Cho([Seq([Ref("Probe0"), Grp(Cho([Seq([L("a"), Clo(Cho([Seq([L("b")])])), L("c")])]))])]), ["memoize", "no_skip_ws", "string"])
        s = Rule("Ss", Cho([Seq([Clo(Cho([Seq([Neg(Grp(Cho([Seq([Ref("Aa"), L("q")])]))), Ref("Aa", "items")])])), Opt(Cho([Seq([Ref("Aa"), L("q")])])), Eoi()])]), ["export", "no_skip_ws"])
        g = Grammar([s, a] + probe_rules(1))
        ins = ["abc" * n for n in (1, 2, 4, 8)] + ["abbbc" * n + "acq" for n in (1, 3, 6)] + ["ab" * n for n in (1, 4)] + ["abcabq", "acqac", "abcx"]
        return g, {"Ss": ins}, []
    if k == 3:
        # failing @check on a memoized rule: the failure must be cached too
        a = Rule("Aa", Cho([Seq([Ref("Probe0"), Grp(Cho([Seq([Rng("a", "z"), Clo(Cho([Seq([Rng("a", "z")])]))])]))])]), ["memoize", "string", "no_skip_ws", ("check", ["vfrt", "vfu", "chk0"])])
        s = Rule("Ss", Cho([Seq([Ref("Aa", "x"), L("1")]), Seq([Ref("Aa", "x"), L("2")]), Seq([Ref("Aa", "x"), L("3")]), Seq([Clo(Cho([Seq([Ref("char")])]))])]), ["export", "no_skip_ws"])
        g = Grammar([s, a] + probe_rules(1))
        words = ["a", "b", "ab", "abc", "q", "zz", "hello", "x", "yz", "memo", "rule", "k"]
        ins = [w + d for w in words for d in ("1", "2", "3", "4", "")]
        return g, {"Ss": ins}, []
    # k == 4: all rules memoized, position + multi-type fields, deep failing alternatives
    b = Rule("Bb", Cho([Seq([Ref("Probe0"), Grp(Cho([
        Seq([L("["), Clo(Cho([Seq([Ref("Bb", "items", True), L(",")])])), Ref("Bb", "items", True), L("]")]),
        Seq([L("["), Clo(Cho([Seq([Ref("Bb", "items", True), L(";")])])), Ref("Bb", "items", True), L("]")]),
        Seq([L("["), L("]")]),
        Seq([Ref("Nn", "n")])]))])]), ["memoize", "position"])
    n_ = Rule("Nn", Cho([Seq([Ref("Probe1"), Grp(Cho([Seq([Clo(Cho([Seq([Rng("0", "9")])]), True)])]))])]), ["memoize", "string", "no_skip_ws"])
    s = Rule("Ss", Cho([Seq([Ref("Bb", "b"), Eoi()])]), ["export"])
    g = Grammar([s, b, n_] + probe_rules(2))
    ins = ["[1,2,3]", "[1;2;3]", "[1,2;3]", "[[1,2],[3;4]]", "[[[[[1]]]]]", "[[[[[1]]]];", "[[[[[1,2;", "[1, [2, [3, [4, [5, [6]]]]]]", "[1; [2; [3; [4; [5; [6]]]]]]",
           "[1; [2; [3; [4; [5; [6]]]]]", "[]", "[[],[]]", "[[];[]", "7", "[7", "[[[[[[[[[[[[1"]
    return g, {"Ss": ins}, [("[" * n + "1", n) for n in (4, 8, 12)]
