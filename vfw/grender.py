"""AST -> grammar text.  Canonical rendering (rnd=None) or randomised layout / spelling:
whitespace and `#` comments at every permitted gap, both quote styles, every escape spelling."""
import re
from gast import *

_IDC = re.compile(r"[A-Za-z0-9_]")


SPELL_LOG = None  # when a list: every (char, spelling) chosen, in rendering order (C12 builds the expected AST from it)


def spell_char(c, quote, rnd, allow_raw=True):
    sp = _spell_char(c, quote, rnd, allow_raw)
    if SPELL_LOG is not None:
        SPELL_LOG.append((c, sp))
    return sp


def _spell_char(c, quote, rnd, allow_raw=True):
    """one spelling of character c inside a literal delimited by `quote`."""
    o = ord(c)
    opts = []
    if allow_raw and c != "\\" and c != quote:
        opts.append(c)
    simple = {"\n": "\\n", "\r": "\\r", "\t": "\\t", "\\": "\\\\", "'": "\\'", '"': '\\"'}
    if c in simple:
        opts.append(simple[c])
    if rnd is None:
        if opts:
            # canonical: raw when printable ASCII / non-ASCII, simple escape for controls
            if c in simple and c in "\n\r\t":
                return simple[c]
            if opts[0] == c and (o >= 0x20 and o != 0x7F):
                return c
            if c in simple:
                return simple[c]
        if o <= 0xFF:
            return "\\x%02x" % o
        return "\\u{%x}" % o
    if o <= 0xFF:
        opts.append(("\\x%02x" if rnd.random() < 0.5 else "\\x%02X") % o)
    if o <= 0xFFFF:
        opts.append(("\\u%04x" if rnd.random() < 0.5 else "\\u%04X") % o)
    opts.append(("\\U00%06x" if rnd.random() < 0.5 else "\\U00%06X") % o)
    digits = "%x" % o
    pad = rnd.randint(0, 6 - len(digits))
    d = "0" * pad + digits
    if rnd.random() < 0.5:
        d = d.upper()
    opts.append("\\u{%s}" % d)
    # bias: raw 50% when possible
    if opts[0] == c and o >= 0x20 and o != 0x7F and rnd.random() < 0.5:
        return c
    return rnd.choice(opts)


def render_lit(e: Lit, rnd):
    quote = e.quote if rnd is None else rnd.choice("'\"")
    body = "".join(spell_char(c, quote, rnd) for c in e.s)
    return ("i" if e.insens else "") + quote + body + quote


def render_rangepart(c, rnd):
    return "'" + spell_char(c, "'", rnd) + "'"


class Toks:
    def __init__(self):
        self.t = []

    def add(self, s, glue=False):
        """glue=True: no gap may be inserted between the previous token and this one"""
        self.t.append((s, glue))


def _expr(e, out: Toks, rnd):
    if isinstance(e, Lit):
        out.add(render_lit(e, rnd))
    elif isinstance(e, Rng):
        out.add(render_rangepart(e.a, rnd))
        out.add("..")
        out.add(render_rangepart(e.b, rnd))
    elif isinstance(e, Eoi):
        out.add("$")
    elif isinstance(e, Ref):
        if e.field is not None:
            out.add("@" if e.field == "@" else e.field)
            out.add(":")
            if e.boxed:
                out.add("*")
        out.add(e.rule)
    elif isinstance(e, Inc):
        out.add(">")
        out.add(e.rule)
    elif isinstance(e, Grp):
        out.add("(")
        _expr(e.body, out, rnd)
        out.add(")")
    elif isinstance(e, Opt):
        out.add("[")
        _expr(e.body, out, rnd)
        out.add("]")
    elif isinstance(e, Clo):
        out.add("{")
        _expr(e.body, out, rnd)
        out.add("}")
        if e.plus:
            out.add("+")
    elif isinstance(e, Neg):
        out.add("!")
        _expr(e.expr, out, rnd)
    elif isinstance(e, Pos):
        out.add("&")
        _expr(e.expr, out, rnd)
    elif isinstance(e, Seq):
        for p in e.parts:
            _expr(p, out, rnd)
    elif isinstance(e, Cho):
        for i, a in enumerate(e.alts):
            if i:
                out.add("|")
            _expr(a, out, rnd)
    else:
        raise TypeError(e)


def _path(parts, out: Toks):
    for i, p in enumerate(parts):
        if i:
            out.add("::")
        out.add(p)


def _check(path, out):
    out.add("@check")
    out.add("(")
    _path(path, out)
    out.add(")")


DIRECTIVE_TEXT = {
    "string": "@string", "no_skip_ws": "@no_skip_ws", "export": "@export",
    "position": "@position", "memoize": "@memoize", "leftrec": "@leftrec",
}


def rule_tokens(r, rnd) -> Toks:
    out = Toks()
    if r.kind == "rule":
        for d in r.directives:
            if isinstance(d, tuple):
                _check(d[1], out)
            else:
                out.add(DIRECTIVE_TEXT[d])
        out.add(r.name)
        out.add("=")
        _expr(r.body, out, rnd)
        out.add(";")
    elif r.kind == "char":
        for c in r.checks_before:
            _check(c, out)
        out.add("@char")
        for c in r.checks_after:
            _check(c, out)
        out.add(r.name)
        out.add("=")
        for i, p in enumerate(r.parts):
            if i:
                out.add("|")
            if p[0] == "lit":
                out.add(render_rangepart(p[1], rnd))
            elif p[0] == "rng":
                out.add(render_rangepart(p[1], rnd))
                out.add("..")
                out.add(render_rangepart(p[2], rnd))
            else:
                out.add(p[1])
        out.add(";")
    else:
        out.add("@extern")
        out.add("(")
        _path(r.func, out)
        if r.ret is not None:
            out.add("->")
            _path(r.ret, out)
        out.add(")")
        out.add(r.name)
        out.add(";")
    return out


_WS = [" ", "  ", "\t", "\n", "\r\n", "\x0c", " \n  "]


_COMMENT_FIXED = ["", " c", " x = 'y' ;", "@export", " é\t"]
_COMMENT_CHARS = list("abcXYZ09 #@;:'\"\\|{}[]()<>=*$!&.\t\r\x0b\x0c\x00\x7f") + [
    "é", "ß", "\u0085", "\u00a0", "日", "\u2028", "\u2029", "\ufeff", "\ufffd", "\uffff", "\ud7ff", "\ue000",
    "\U00010000", "😀", "\U0001d410", "\U000e0001", "\U0010ffff", "\u0301"]


def _comment_text(rnd):
    """anything but a line feed may stand in a comment"""
    if rnd.random() < 0.4:
        return rnd.choice(_COMMENT_FIXED)
    return "".join(rnd.choice(_COMMENT_CHARS) for _ in range(rnd.randint(1, 10)))


def _gap(rnd, need, level):
    """random gap text; `need` = a separator is required"""
    if rnd is None:
        return " " if need else ""
    x = rnd.random()
    if x < (0.35 if not need else 0.0) and not need:
        return ""
    parts = []
    n = 1 if rnd.random() < 0.7 else rnd.randint(1, 3)
    for _ in range(n):
        if level >= 2 and rnd.random() < 0.15:
            parts.append("#" + _comment_text(rnd) + "\n")
        else:
            parts.append(rnd.choice(_WS))
    return "".join(parts)


def join_tokens(toks: Toks, rnd, level=2, canonical_sep=" "):
    s = ""
    prev = None
    for tok, glue in toks.t:
        if prev is not None:
            need = bool(_IDC.match(prev[-1]) and _IDC.match(tok[0]))
            # `i` + quote would turn an identifier into a case-insensitivity marker
            if _IDC.match(prev[-1]) and tok[0] in "'\"":
                need = True
            if glue:
                gap = ""
            elif rnd is None:
                gap = canonical_sep
            else:
                gap = _gap(rnd, need, level)
            s += gap
        s += tok
        prev = tok
    return s


def render(g: Grammar, rnd=None, level=2) -> str:
    """level 0: canonical; 1: random whitespace + spelling; 2: + comments"""
    out = []
    for r in g.rules:
        toks = rule_tokens(r, rnd)
        out.append(join_tokens(toks, rnd, level))
    if rnd is None:
        return "\n".join(out) + "\n"
    text = ""
    for o in out:
        text += _gap(rnd, False, level) + o
    text += _gap(rnd, False, level)
    return text
