import checks
import c11
import c15

SPECIAL = {"C03": checks.check_C03, "C11": c11.check_C11, "C15": c15.check_C15}


def implemented():
    return sorted(set(SPECIAL) | set(checks.CONF))


def run(pid, tier, seed):
    if pid in SPECIAL:
        return SPECIAL[pid](tier, seed)
    if pid in checks.CONF:
        return checks.run_pipeline_property(pid, tier, seed)
    raise SystemExit("unknown property " + pid)
