import checks

SPECIAL = {"C03": checks.check_C03}


def implemented():
    return sorted(set(SPECIAL) | set(checks.CONF))


def run(pid, tier, seed):
    if pid in SPECIAL:
        return SPECIAL[pid](tier, seed)
    if pid in checks.CONF:
        return checks.run_pipeline_property(pid, tier, seed)
    raise SystemExit("unknown property " + pid)
