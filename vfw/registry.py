import checks
import c11
import c15
import c12
import c17
import c18
import c16
import c20
import c04

SPECIAL = {"C03": checks.check_C03, "C11": c11.check_C11, "C15": c15.check_C15, "C12": c12.check_C12, "C17": c17.check_C17, "C18": c18.check_C18, "C16": c16.check_C16, "C20": c20.check_C20, "C04": c04.check_C04, "C06": checks.check_C06, "C14": checks.check_C14, "C13": checks.check_C13}


def implemented():
    return sorted(set(SPECIAL) | set(checks.CONF))


def run(pid, tier, seed):
    if pid in SPECIAL:
        return SPECIAL[pid](tier, seed)
    if pid in checks.CONF:
        return checks.run_pipeline_property(pid, tier, seed)
    raise SystemExit("unknown property " + pid)
