"""C20: parsing is a pure function of grammar and input, also across threads.
(i) sequential baseline vs the same multiset of parses distributed over threads (barrier start, yields and
short sleeps injected from the recording tracer's callbacks), and vs re-ordered sequential histories;
(ii) thorough: the same binary under ThreadSanitizer; (iii) thorough: a reduced run under Miri with many seeds."""
import os
import pickle
import random
import re
import shutil
import subprocess
import tempfile

import build
import ggen
import grender
import inputs as inputs_mod
from gast import check_types
from model import Model, Drop
import rdebug
from evidence import Outcome


def make_units(seed, n, wd):
    profs = ["memo", "unicode", "leftrec", "charclass", "userfn", "mix", "unicode", "trace", "charclass", "unicode"]
    units = []
    cases = []
    texts = {}
    k = 0
    for i in range(n):
        prof = profs[i % len(profs)]
        for attempt in range(20):
            g = ggen.Gen(random.Random("c20/%s/%d/%d" % (seed, i, attempt)), ggen.profile(prof)).grammar()
            if not g.user_ctx:
                break
        g.user_ctx = False
        text = grender.render(g, None)
        gp = os.path.join(wd, "g%d.ebnf" % i)
        with open(gp, "w", encoding="utf-8") as f:
            f.write(text)
        texts[i] = text
        types = check_types(g)
        units.append({"gidx": i, "gpath": gp, "code_path": os.path.join(wd, "g%d.rs" % i),
                      "exports": [(r.name, types[r.name].position) for r in g.exported()], "ctx": False})
        irnd = random.Random("c20i/%s/%d" % (seed, i))
        # cases whose reference evaluation is expensive (legal exponential backtracking) are not part of this workload:
        # every parse is recorded event by event and repeated dozens of times
        try:
            ref = Model(g, types, step_cap=6000)
        except Exception:
            ref = None
        for r in g.exported():
            for s in inputs_mod.inputs_for(g, r.name, irnd, n_sent=6, n_total=(30 if prof in ("unicode", "charclass") else 16), unicode_heavy=(prof in ("unicode", "mix", "charclass")), ws_inject=(prof in ("core", "trace", "memo", "leftrec"))):
                budget = 50000000
                if ref is not None:
                    try:
                        budget = 200 * ref.parse(r.name, s)["steps"] + 100000
                    except (Drop, rdebug.Unsupported, RecursionError):
                        continue
                    except Exception:
                        budget = 3000000
                cases.append(("c%d" % k, i, r.name, 6 if k % 7 == 0 else 2, budget, s))
                k += 1
    # one "heavy" grammar: parses that hold hundreds of thousands of cache entries for a while, running next to all the
    # small ones (anything budgeted or counted per process rather than per parse shows up in the small ones' results)
    hi = n
    htext = "@export Big = { i:Item } [ tail:Tail ] $;\n@memoize Item = 'a' | 'b' 'c';\n@memoize Tail = 'x' | 'y' Tail;\n"
    gp = os.path.join(wd, "g%d.ebnf" % hi)
    with open(gp, "w", encoding="utf-8") as f:
        f.write(htext)
    texts[hi] = htext
    units.append({"gidx": hi, "gpath": gp, "code_path": os.path.join(wd, "g%d.rs" % hi), "exports": [("Big", False)], "ctx": False})
    for s_ in ("a" * 700000, "a" * 400000 + "bc" * 150000 + "yyx", "a" * 650000 + "b", "bc" * 330000 + "q"):
        cases.append(("c%d" % k, hi, "Big", 1, 2000000000, s_))  # mode 1: plain parse (no event log for 300 KB inputs)
        k += 1
    # ... and a small grammar whose error reports depend on whether a cache entry is used (a cache hit returns the state
    # of the first evaluation, with its furthest-failure record), parsed many times so that some of its parses overlap
    # the heavy ones
    si = n + 1
    stext = "@export Small = 'b' A 'n' | B A 'q' | B 'z';\nB = 'b' ['a' 'x' 'y'];\n@memoize A = 'a' | 'c' 'd';\n"
    gp = os.path.join(wd, "g%d.ebnf" % si)
    with open(gp, "w", encoding="utf-8") as f:
        f.write(stext)
    texts[si] = stext
    units.append({"gidx": si, "gpath": gp, "code_path": os.path.join(wd, "g%d.rs" % si), "exports": [("Small", False)], "ctx": False})
    for rep in range(120):
        for s_ in ("bax", "baq", "ban", "bcdx", "bcx", "b"):
            cases.append(("c%d" % k, si, "Small", 2, 50000000, s_))
            k += 1
    return units, cases, texts


def write_cases(path, cases):
    with open(path, "w") as f:
        for c in cases:
            f.write("%s\t%d\t%s\t%d\t%d\t%s\n" % (c[0], c[1], c[2], c[3], c[4], build.hexs(c[5])))  # (extra tuple members are ignored)


def fingerprint(rec):
    """everything observable about one parse: result, user-function calls, rule entry/exit sequence"""
    return (tuple(rec["result"]) if rec["result"] else None, tuple(map(tuple, rec["calls"])) if False else repr(rec["calls"]), repr(rec["events"]))


def check_C20(tier, seed):
    out = Outcome("C20", tier, seed)
    wd = tempfile.mkdtemp(prefix="vf20_", dir=build.WORK)
    try:
        n = 40 if tier == "quick" else 100
        import pipeline
        build.debug_table()
        pipeline.build_debug_table_once()
        units, cases, texts = make_units(seed, n, wd)
        jobs = [("g%d" % u["gidx"], u["gpath"], u["code_path"], "-", "-") for u in units]
        r = build.run_cgdrv("gen", jobs, wd)
        units = [u for u in units if r["g%d" % u["gidx"]][0] == "ok"]
        good = {u["gidx"] for u in units}
        cases = [c for c in cases if c[1] in good]
        crate = os.path.join(wd, "crate")
        tn = build.unique_bin("t0")
        build.write_batch_crate(crate, [(tn, units)])
        tgt = build.tool_vfrt("dev-hooks")
        ok, failures, proc = build.build_batch_crate(crate, tgt, build.flavor_flags("dev-hooks"))
        if tn not in ok:
            out.inconc("harness_build_failed")
            out.notes.append({"build": proc.stdout[-1500:]})
            return out.finish(0, 0, "harness build failed", floor=0)
        binp = os.path.join(wd, "t0.bin")
        shutil.copy(ok[tn], binp)
        os.remove(ok[tn])
        cp = os.path.join(wd, "cases.tsv")
        write_cases(cp, cases)
        lp = os.path.join(wd, "seq.log")
        build.run_batch_bin(binp, cp, lp, len(cases))
        trailers = [("sequential run", build.rendering_trailer(lp))]
        base = {}
        for cid, modes in build.parse_log(lp).items():
            base[cid] = fingerprint((modes.get("rec") or modes["noop"])[0])
        bycase = {c[0]: c for c in cases}
        evaluations = 0
        nontriv = 0
        # (a) history independence: a shuffled order with repeats, other grammars' parses interleaved
        rnd = random.Random("c20/%s/order" % seed)
        order2 = cases + [rnd.choice(cases) for _ in range(len(cases) // 2)]
        rnd.shuffle(order2)
        cp2 = os.path.join(wd, "cases2.tsv")
        write_cases(cp2, [(c[0],) + c[1:] for c in order2])
        lp2 = os.path.join(wd, "seq2.log")
        build.run_batch_bin(binp, cp2, lp2, len(order2))
        trailers.append(("shuffled sequential history", build.rendering_trailer(lp2)))
        for cid, modes in build.parse_log(lp2).items():
            for rec in (modes.get("rec") or modes.get("noop") or []):
                evaluations += 1
                fp = fingerprint(rec)
                if fp[0] and fp[0][0] == "ok" or (fp[0] and fp[0][0] == "err" and fp[0][1] > 0):
                    nontriv += 1
                if fp != base.get(cid):
                    c = bycase[cid]
                    out.violation("c20:history-dependent:%s:%s" % (c[1], c[2]), "parsing %r again after other inputs gave a different result / trace (rule %s)" % (c[5], c[2]),
                                  {"grammar_text": texts[c[1]], "rule": c[2], "input": c[5], "first": list(map(str, base.get(cid) or []))[:1], "later": str(fp[0])})
        # (a2) fresh-process reference: a sample of cases parsed alone, each in its own process, must equal what the same
        # case gave inside the long-lived sequential run (state surviving a parse anywhere in the process shows here)
        from concurrent.futures import ThreadPoolExecutor
        srnd = random.Random("c20/%s/fresh" % seed)
        sample = srnd.sample(cases, min(len(cases), 500 if tier == "quick" else 2500))

        def alone(c):
            cpf = os.path.join(wd, "one_%s.tsv" % c[0])
            lpf = os.path.join(wd, "one_%s.log" % c[0])
            write_cases(cpf, [c])
            try:
                subprocess.run([binp, cpf, lpf], stdout=subprocess.DEVNULL, stderr=subprocess.DEVNULL, timeout=120, env=build.BASE_ENV)
                obs1 = build.parse_log(lpf)
                rec = (obs1[c[0]].get("rec") or obs1[c[0]]["noop"])[0]
                return c, fingerprint(rec)
            except Exception:
                return c, None
            finally:
                for pth in (cpf, lpf):
                    if os.path.exists(pth):
                        os.remove(pth)
        fresh_checked = 0
        with ThreadPoolExecutor(max_workers=build.NCPU) as ex:
            for c, fp in ex.map(alone, sample):
                if fp is None:
                    out.inconc("fresh_process_run_failed")
                    continue
                evaluations += 1
                fresh_checked += 1
                if fp[0] and (fp[0][0] == "ok" or (fp[0][0] == "err" and fp[0][1] > 0)):
                    nontriv += 1
                if fp != base.get(c[0]):
                    out.violation("c20:differs-from-fresh-process:%s:%s" % (c[1], c[2]), "parsing %r alone in a fresh process gives a different result / trace than inside a process that parsed other inputs before (rule %s)" % (c[5], c[2]),
                                  {"grammar_text": texts[c[1]], "rule": c[2], "input": c[5], "fresh_process": str(fp[0]), "long_lived_process": str((base.get(c[0]) or [None])[0])})
        out.coverage["fresh_process_references"] = fresh_checked
        # (b) threads
        configs = [(2, 1), (4, 1), (8, 2), (16, 2)] if tier == "quick" else [(2, 0), (2, 2), (3, 1), (4, 2), (8, 1), (8, 2), (16, 1), (16, 2), (32, 2)]
        overlaps = 0
        patterns = set()
        thread_runs = 0
        for ci, (nth, shake) in enumerate(configs):
            for rep in range(2 if tier == "quick" else 4):
                tseed = (seed * 1000 + ci * 10 + rep) + 1
                lpt = os.path.join(wd, "thr_%d_%d.log" % (ci, rep))
                try:
                    p = subprocess.run([binp, "threads", cp, lpt, str(nth), str(tseed), str(shake), "2"], stdout=subprocess.DEVNULL,
                                       stderr=subprocess.PIPE, timeout=600, env=build.BASE_ENV)
                except subprocess.TimeoutExpired:
                    out.inconc("watchdog_timeout_threads")
                    continue
                thread_runs += 1
                if p.returncode != 0:
                    out.violation("c20:threaded-run-died", "concurrent run died rc=%s: %s" % (p.returncode, p.stderr.decode("utf-8", "replace")[-300:]), {"threads": nth, "seed": tseed})
                    continue
                obs = build.parse_log(lpt)
                trailers.append(("%d-thread run" % nth, build.rendering_trailer(lpt)))
                intervals = []
                assign = []
                for cid, modes in obs.items():
                    for rec in (modes.get("rec") or modes.get("noop") or []):
                        evaluations += 1
                        fp = fingerprint(rec)
                        if fp[0] and (fp[0][0] == "ok" or (fp[0][0] == "err" and fp[0][1] > 0)):
                            nontriv += 1
                        intervals.append((rec["t0"], rec["t1"], rec["thread"]))
                        assign.append((cid, rec["thread"]))
                        if fp != base.get(cid):
                            c = bycase[cid]
                            out.violation("c20:concurrent-differs:%s:%s" % (c[1], c[2]), "parsing %r on thread %d concurrently with other parses gave a different result / trace than the sequential run (rule %s)" % (c[5], rec["thread"], c[2]),
                                          {"grammar_text": texts[c[1]], "rule": c[2], "input": c[5], "sequential": str((base.get(cid) or [None])[0]), "concurrent": str(fp[0]), "threads": nth, "schedule_seed": tseed})
                patterns.add(hash(tuple(sorted(assign))))
                # overlapping parse intervals on different threads (sweep)
                intervals.sort()
                active = []
                for (a, b, t) in intervals:
                    active = [(bb, tt) for (bb, tt) in active if bb > a]
                    overlaps += sum(1 for (bb, tt) in active if tt != t)
                    active.append((b, t))
                os.remove(lpt)
        # nothing a parse does may outlive it: one fixed PrettyParseError rendered before the first and after the last parse of each
        # driver process (which ran plain, recorded and IndentedTracer parses) must come out the same
        seen_tr = 0
        for where, tr in trailers:
            if tr is None:
                continue
            seen_tr += 1
            if tr != "same":
                out.violation("c20:process-state-changed-by-parses", "after the parses of the %s the same error is rendered differently than before them (process-wide state was changed by parsing): %r vs %r" % (where, tr[0][:80], tr[1][:80]),
                              {"where": where, "before": tr[0], "after": tr[1]})
                break
        out.coverage["before_after_renderings_compared"] = seen_tr
        out.coverage["thread_runs"] = thread_runs
        out.coverage["overlapping_parse_pairs_observed"] = overlaps
        out.coverage["distinct_thread_assignment_patterns"] = len(patterns)
        out.coverage["sequential_baseline_cases"] = len(base)
        if overlaps == 0:
            out.inconc("no_overlapping_parses_observed")
        out.samples = [{"grammar_text": texts[c[1]][:300], "rule": c[2], "input": c[5]} for c in cases[:3]]
        e2, n2 = deep_leg(out, wd, tier, seed)
        evaluations += e2
        nontriv += n2
        if tier == "thorough":
            tsan_leg(out, wd, units, cases, seed)
            miri_leg(out, wd, units, cases, seed)
    finally:
        shutil.rmtree(wd, ignore_errors=True)
    rule = ("grammars of the memo/leftrec/trace/core/userfn/unicode/charclass/mix profiles x 16-30 inputs per exported rule (each input placed at a varying offset of a reused buffer), 4 heavy parses (0.7 MB, memoized) and 720 copies of a cache-sensitive small grammar; one fixed PrettyParseError rendered before and after all parses of every driver process; (a) sequential baseline vs a shuffled sequential history with repeats and other parsers interleaved; "
            "(b) the same multiset (x2) randomly assigned to 2-32 threads started at a barrier with yields/sleeps injected from tracer callbacks; result, user-function calls and the full rule entry/exit sequence of every parse must equal the baseline. "
            "(c) four recursive grammars x inputs nested 1..1300 (thorough 2600) levels deep (ladder) plus 16 (thorough 40) deeper ones, each compared with its fresh-process result in ascending / deepest-first / shuffled histories and on 4 and 8 threads (2 GiB stacks). thorough adds a ThreadSanitizer build and Miri (-Zmiri-many-seeds). evaluations = parses compared with the baseline; non-trivial = the parse progressed beyond offset 0.")
    return out.finish(evaluations, nontriv, rule, floor=50)


DEEP_GRAMMARS = [
    # (text, exported rule, input of nesting depth d, rule calls per level)
    ("@export Ss = e:Expr $;\n@leftrec Expr = l:*Expr '+' r:Term | r:Term;\nTerm = '(' e:*Expr ')' | n:Num;\n@memoize @string @no_skip_ws Num = {'0'..'9'}+;\n",
     "Ss", lambda d: "(" * d + "1" + ")" * d),
    ("@export Nest = '[' { items:*Nest } ']' | a:Atom;\n@string Atom = 'a'..'z';\n", "Nest", lambda d: "[" * d + "a" + "]" * d),
    ("@export Rr = 'x' r:*Rr | 'y';\n", "Rr", lambda d: "x" * d + "y"),
    ("@export @memoize Mm = '<' m:*Mm '>' o:Oo | o:Oo;\n@memoize Oo = 'o' | !'<' 'p';\n", "Mm", lambda d: "<" * d + "o" + ">o" * d),
]


def deep_leg(out, wd, tier, seed):
    """deeply nested inputs (hundreds to thousands of levels) mixed into histories and threads: results must not depend on
    what the thread parsed before.  The harness gives every driver thread a 2 GiB stack, so the native stack is never
    what is being tested; a process that still dies is counted as inconclusive."""
    rnd = random.Random("c20/%s/deep" % seed)
    units = []
    texts = {}
    for i, (text, rule, _) in enumerate(DEEP_GRAMMARS):
        gp = os.path.join(wd, "deep%d.ebnf" % i)
        with open(gp, "w", encoding="utf-8") as f:
            f.write(text)
        texts[i] = text
        units.append({"gidx": i, "gpath": gp, "code_path": os.path.join(wd, "deep%d.rs" % i), "exports": [(rule, False)], "ctx": False})
    r = build.run_cgdrv("gen", [("d%d" % u["gidx"], u["gpath"], u["code_path"], "-", "-") for u in units], wd)
    units = [u for u in units if r["d%d" % u["gidx"]][0] == "ok"]
    if not units:
        out.inconc("deep_leg_grammars_rejected")
        return 0, 0
    step = 61 if tier == "quick" else 17
    top = 1300 if tier == "quick" else 2600
    ladder = list(range(1, top, step)) + [255, 256, 257, 511, 512, 513, 1023, 1024, 1025] + ([2047, 2048, 2049] if tier != "quick" else [])
    over = [top + 100 + 13 * j for j in range(12 if tier == "quick" else 40)]
    cases = []
    k = 0
    for u in units:
        i = u["gidx"]
        _, rule, mk = DEEP_GRAMMARS[i]
        for d in ladder + over:
            cases.append(("d%d" % k, i, rule, 1, 2000000000, mk(d), d))  # mode 1: plain parse, no event log
            k += 1
    crate = os.path.join(wd, "crate_deep")
    tn = build.unique_bin("deep")
    build.write_batch_crate(crate, [(tn, units)])
    tgt = build.tool_vfrt("dev-hooks")
    ok, failures, proc = build.build_batch_crate(crate, tgt, build.flavor_flags("dev-hooks"))
    if tn not in ok:
        out.inconc("deep_leg_build_failed")
        out.notes.append({"deep_build": proc.stdout[-1200:]})
        return 0, 0
    binp = os.path.join(wd, "deep.bin")
    shutil.copy(ok[tn], binp)
    os.remove(ok[tn])
    env = {"VFRT_STACK_MB": "2048"}
    bycase = {c[0]: c for c in cases}

    def fp_of(rec):
        return (tuple(rec["result"]) if rec["result"] else None,)

    # reference: every case alone in a fresh process
    from concurrent.futures import ThreadPoolExecutor

    def alone(c):
        cpf = os.path.join(wd, "deep_one_%s.tsv" % c[0])
        lpf = os.path.join(wd, "deep_one_%s.log" % c[0])
        write_cases(cpf, [c])
        try:
            subprocess.run([binp, cpf, lpf], stdout=subprocess.DEVNULL, stderr=subprocess.DEVNULL, timeout=300, env=dict(build.BASE_ENV, **env))
            return c[0], fp_of(build.parse_log(lpf)[c[0]]["noop"][0])
        except Exception:
            return c[0], None
        finally:
            for pth in (cpf, lpf):
                if os.path.exists(pth):
                    os.remove(pth)
    ref = {}
    with ThreadPoolExecutor(max_workers=build.NCPU) as ex:
        for cid, fp in ex.map(alone, cases):
            if fp is None or fp[0] is None or fp[0][0] not in ("ok", "err"):
                out.inconc("deep_reference_run_failed")
            else:
                ref[cid] = fp
    evaluations = len(ref)
    nontriv = 0
    accepted_depths = sorted({bycase[cid][6] for cid, fp in ref.items() if fp[0][0] == "ok"})
    # histories: ascending, the over-deep ones first then descending, shuffled with repeats
    asc = sorted(cases, key=lambda c: (c[6], c[1]))
    hostile = [c for c in cases if c[6] in over] + sorted([c for c in cases if c[6] not in over], key=lambda c: (-c[6], c[1]))
    shuf = cases + [rnd.choice(cases) for _ in range(len(cases) // 4)]
    rnd.shuffle(shuf)
    compared = 0
    for hname, order in ((("ascending", asc), ("over-deep-first", hostile)) + ((("shuffled", shuf),) if tier != "quick" else ())):
        cp = os.path.join(wd, "deep_%s.tsv" % hname)
        lp = os.path.join(wd, "deep_%s.log" % hname)
        write_cases(cp, order)
        crashes, to = build.run_batch_bin(binp, cp, lp, len(order), env=env, timeout=900)
        if crashes or to:
            out.inconc("deep_history_process_died_or_timed_out", len(crashes) + (1 if to else 0))
        for cid, modes in build.parse_log(lp).items():
            for rec in modes.get("noop", []):
                if cid not in ref or not rec.get("result") or rec["result"][0] not in ("ok", "err"):
                    continue
                compared += 1
                evaluations += 1
                if bycase[cid][6] >= 100:
                    nontriv += 1
                fp = fp_of(rec)
                if fp != ref[cid]:
                    c = bycase[cid]
                    out.violation("c20:deep-history-dependent:%d" % c[1], "an input nested %d levels deep gives %s alone in a fresh process but %s in the '%s' history of one process (rule %s)" % (c[6], str(ref[cid][0])[:120], str(fp[0])[:120], hname, c[2]),
                                  {"grammar_text": texts[c[1]], "rule": c[2], "nesting_depth": c[6], "history": hname, "fresh_process": str(ref[cid][0])[:300], "in_history": str(fp[0])[:300]})
        for pth in (cp, lp):
            if os.path.exists(pth):
                os.remove(pth)
    # threads: the same cases (x2) on 4 and 8 worker threads
    cp = os.path.join(wd, "deep_all.tsv")
    write_cases(cp, cases)
    for ci, nth in enumerate((4,) if tier == "quick" else (4, 8)):
        lpt = os.path.join(wd, "deep_thr_%d.log" % ci)
        try:
            p = subprocess.run([binp, "threads", cp, lpt, str(nth), str(seed * 31 + ci + 1), "1", "2"], stdout=subprocess.DEVNULL, stderr=subprocess.PIPE,
                               timeout=900, env=dict(build.BASE_ENV, **env))
        except subprocess.TimeoutExpired:
            out.inconc("deep_threads_watchdog_timeout")
            continue
        if p.returncode != 0:
            out.inconc("deep_threaded_run_died_rc_%s" % p.returncode)
            continue
        for cid, modes in build.parse_log(lpt).items():
            for rec in modes.get("noop", []):
                if cid not in ref or not rec.get("result") or rec["result"][0] not in ("ok", "err"):
                    continue
                compared += 1
                evaluations += 1
                if bycase[cid][6] >= 100:
                    nontriv += 1
                fp = fp_of(rec)
                if fp != ref[cid]:
                    c = bycase[cid]
                    out.violation("c20:deep-thread-dependent:%d" % c[1], "an input nested %d levels deep gives %s alone in a fresh process but %s on worker thread %s of a %d-thread run (rule %s)" % (c[6], str(ref[cid][0])[:120], str(fp[0])[:120], rec.get("thread"), nth, c[2]),
                                  {"grammar_text": texts[c[1]], "rule": c[2], "nesting_depth": c[6], "threads": nth, "fresh_process": str(ref[cid][0])[:300], "on_thread": str(fp[0])[:300]})
        if os.path.exists(lpt):
            os.remove(lpt)
    out.coverage["deep_nesting"] = {"grammars": len(units), "depths": [min(ladder), max(over)], "ladder_step": step, "cases": len(cases), "fresh_process_references": len(ref),
                                    "deepest_accepted": accepted_depths[-1] if accepted_depths else None, "parses_compared_with_reference": compared}
    return evaluations, nontriv


def tsan_leg(out, wd, units, cases, seed):
    crate = os.path.join(wd, "crate_tsan")
    build.write_batch_crate(crate, [("t0", units)])
    tgt = os.path.join(build.WORK, "tgt", "tsan")
    flags = "-Zsanitizer=thread " + build.HOOK_FLAGS
    p = build.cargo_build(crate, tgt, rustflags=flags, toolchain="nightly",
                          extra=["-Zbuild-std", "--target", "x86_64-unknown-linux-gnu", "--message-format=json"], timeout=3600)
    binp = None
    import json
    for line in p.stdout.splitlines():
        if line.startswith("{"):
            try:
                m = json.loads(line)
            except ValueError:
                continue
            if m.get("reason") == "compiler-artifact" and m.get("executable"):
                binp = m["executable"]
    if binp is None:
        out.inconc("tsan_build_failed")
        out.notes.append({"tsan_build": p.stdout[-800:]})
        return
    cp = os.path.join(wd, "cases.tsv")
    reports = 0
    runs = 0
    sigs = set()
    for rep, (nth, shake) in enumerate([(4, 1), (8, 2), (16, 1)]):
        lpt = os.path.join(wd, "tsan_%d.log" % rep)
        try:
            pr = subprocess.run([binp, "threads", cp, lpt, str(nth), str(seed * 77 + rep + 1), str(shake), "1"], stdout=subprocess.DEVNULL, stderr=subprocess.PIPE,
                                timeout=1800, env=dict(build.BASE_ENV, TSAN_OPTIONS="halt_on_error=0 report_signal_unsafe=0"))
        except subprocess.TimeoutExpired:
            out.inconc("tsan_watchdog_timeout")
            continue
        runs += 1
        err = pr.stderr.decode("utf-8", "replace")
        blocks = err.split("WARNING: ThreadSanitizer")[1:]
        reports += len(blocks)
        for b in blocks:
            frames = re.findall(r"#\d+ (\S+)", b)
            own = [f for f in frames if "peginator" in f or "vfrt" in f or "vfbatch" in f][:2]
            sigs.add("tsan:" + "|".join(own))
        if pr.returncode not in (0, 66) and not blocks:
            out.inconc("tsan_run_failed_rc_%s" % pr.returncode)
    for s in sorted(sigs):
        out.violation(s, "ThreadSanitizer reported a data race between concurrently running parses (%s)" % s, {"signature": s})
    out.coverage["tsan"] = {"runs": runs, "reports": reports, "parses_per_run": len(cases)}
    if binp and os.path.exists(binp):
        os.remove(binp)


def miri_leg(out, wd, units, cases, seed):
    small_units = units[:4]
    gids = {u["gidx"] for u in small_units}
    small = [c for c in cases if c[1] in gids][:60]
    crate = os.path.join(wd, "crate_miri")
    build.write_batch_crate(crate, [("t0", small_units)])
    shutil.copy(os.path.join(build.REPO, "Cargo.lock"), os.path.join(crate, "Cargo.lock"))
    cp = os.path.join(wd, "cases_miri.tsv")
    with open(cp, "w") as f:
        for c in small:
            f.write("%s\t%d\t%s\t%d\t%d\t%s\n" % (c[0], c[1], c[2], c[3], c[4], build.hexs(c[5])))
    lpt = os.path.join(wd, "miri.log")
    env = dict(build.BASE_ENV, MIRIFLAGS="-Zmiri-disable-isolation -Zmiri-many-seeds=0..8", CARGO_TARGET_DIR=os.path.join(build.WORK, "tgt", "miri"), RUSTFLAGS="")
    try:
        pr = subprocess.run(["cargo", "+nightly", "miri", "run", "--offline", "--bin", "t0", "--", "threads", cp, lpt, "3", str(seed + 1), "1", "1"],
                            cwd=crate, env=env, stdout=subprocess.PIPE, stderr=subprocess.PIPE, timeout=3000)
    except subprocess.TimeoutExpired:
        out.inconc("miri_watchdog_timeout")
        return
    err = pr.stderr.decode("utf-8", "replace")
    ub = re.findall(r"error: (Undefined Behavior[^\n]*|Data race[^\n]*|[^\n]*data race[^\n]*)", err)
    out.coverage["miri"] = {"seeds": 8, "parses_per_seed": len(small), "threads": 3, "rc": pr.returncode, "ub_reports": len(ub)}
    if ub:
        out.violation("miri:" + ub[0][:80], "Miri reported: %s" % ub[0], {"stderr": err[-3000:]})
    elif pr.returncode != 0:
        out.inconc("miri_run_failed")
        out.notes.append({"miri_stderr": err[-1200:]})
