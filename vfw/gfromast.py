"""Debug(peginator_codegen::Grammar) (as printed by the real front end) -> gast AST.
Lets the reference model run on the repository's own grammars (test suite, grammar.ebnf): real-world grammars
join the generated ones in the workload.  The front end itself is checked by C12 / C17."""
from gast import *

SIMPLE = {"SimpleEscapeNewline": "\n", "SimpleEscapeCarriageReturn": "\r", "SimpleEscapeTab": "\t",
          "SimpleEscapeBackslash": "\\", "SimpleEscapeQuote": "'", "SimpleEscapeDQuote": '"'}
DIRS = {"StringDirective": "string", "NoSkipWsDirective": "no_skip_ws", "ExportDirective": "export",
        "PositionDirective": "position", "MemoizeDirective": "memoize", "LeftrecDirective": "leftrec"}


def item_char(t):
    assert t[0] == "call", t
    kind, inner = t[1], t[2][0]
    if kind == "char":
        return inner[1]
    if kind == "SimpleEscape":
        return SIMPLE[inner[1]]
    if kind == "HexaEscape":
        return chr(int(inner[2]["c1"][1] + inner[2]["c2"][1], 16))
    if kind == "Utf8Escape":
        d = inner[2]["c1"][1]
        for k in ("c2", "c3", "c4", "c5", "c6"):
            v = inner[2][k]
            if v[0] == "call":
                d += v[2][0][1]
        return chr(int(d, 16))
    raise ValueError(t)


def some(v):
    return v[2][0] if v[0] == "call" and v[1] == "Some" else None


def path(v):
    return [x[1] for x in v[1]]


def expr(t):
    kind, inner = t[1], t[2][0]
    f = inner[2] if inner[0] == "struct" else {}
    if kind == "StringLiteral":
        return Lit("".join(item_char(x) for x in f["body"][1]), some(f["insensitive"]) is not None)
    if kind == "CharacterRange":
        return Rng(item_char(f["from"]), item_char(f["to"]))
    if kind == "EndOfInput":
        return Eoi()
    if kind == "Field":
        nm = some(f["name"])
        field = None
        if nm is not None:
            field = "@" if nm[1] == "OverrideMarker" else nm[2][0][1]
        return Ref(f["typ"][1], field, some(f["boxed"]) is not None)
    if kind == "IncludeRule":
        return Inc(f["rule"][1])
    if kind == "Group":
        return Grp(cho(f["body"]))
    if kind == "Optional":
        return Opt(cho(f["body"]))
    if kind == "Closure":
        return Clo(cho(f["body"]), some(f["at_least_one"]) is not None)
    if kind == "NegativeLookahead":
        return Neg(expr(f["expr"]))
    if kind == "PositiveLookahead":
        return Pos(expr(f["expr"]))
    raise ValueError(kind)


def cho(t):
    return Cho([Seq([expr(p) for p in s[2]["parts"][1]]) for s in t[2]["choices"][1]])


def grammar(tree) -> Grammar:
    rules = []
    for r in tree[2]["rules"][1]:
        kind, inner = r[1], r[2][0]
        f = inner[2]
        if kind == "Rule":
            ds = []
            for d in f["directives"][1]:
                if d[1] == "CheckDirective":
                    ds.append(("check", path(d[2][0][2]["function"])))
                else:
                    ds.append(DIRS[d[1]])
            rules.append(Rule(f["name"][1], cho(f["definition"]), ds))
        elif kind == "CharRule":
            parts = []
            for p in f["choices"][1]:
                if p[1] == "CharRangePart":
                    parts.append(("lit", item_char(p[2][0])))
                elif p[1] == "CharacterRange":
                    parts.append(("rng", item_char(p[2][0][2]["from"]), item_char(p[2][0][2]["to"])))
                else:
                    parts.append(("ref", p[2][0][1]))
            rules.append(CharRule(f["name"][1], parts, [path(d[2]["function"]) for d in f["directives"][1]], []))
        else:
            d = f["directive"][2]
            rt = some(d["return_type"])
            rules.append(ExternRule(f["name"][1], path(d["function"]), path(rt) if rt is not None else None))
    return Grammar(rules)


def uses_user_functions(g: Grammar):
    for r in g.rules:
        if r.kind == "extern":
            return True
        if r.checks():
            return True
    return False
