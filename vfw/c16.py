"""C16: code generation is deterministic and identical through every integration route."""
import os
import random
import shutil
import subprocess
import tempfile

import build
import c15
import ggen
import grender
import inputs as inputs_mod
import typeassert
from gast import check_types
from evidence import Outcome


def strip_header(text):
    lines = text.split("\n")
    i = 0
    while i < len(lines) and (lines[i].startswith("//") or lines[i] == ""):
        i += 1
    return "\n".join(lines[i:])


def rust_str(s, rnd=None, style=0):
    """a Rust string literal denoting `s`.  style 0: one line, the usual escapes; style 1: a raw string when the text
    permits one (no bare CR); style 2: every spelling the Rust reference gives a string literal - real line breaks,
    \\xNN and \\u{..} escapes, \\' , and line continuations (backslash, line break, indentation) at random places, also
    inside the grammar's own literals"""
    if style == 1 and "\r" not in s:
        n = 1
        while '"' + "#" * n in s:
            n += 1
        return "r" + "#" * n + '"' + s + '"' + "#" * n
    out = ['"']
    pending_cont = False
    for ch in s:
        o = ord(ch)
        fancy = style == 2 and rnd is not None
        if fancy and rnd.random() < 0.06:
            out.append("\\\n" + " " * rnd.randrange(0, 9) + ("\t" if rnd.random() < 0.2 else "") + ("\n  " if rnd.random() < 0.15 else ""))
            pending_cont = True
        if ch == "\\":
            out.append("\\\\")
        elif ch == '"':
            out.append('\\"')
        elif ch == "\n":
            out.append("\n" if fancy and not pending_cont and rnd.random() < 0.5 else "\\n")
        elif ch == "\r":
            out.append("\\r")
        elif ch == "\t":
            out.append("\t" if fancy and not pending_cont and rnd.random() < 0.5 else "\\t")
        elif ch == " " and pending_cont:
            out.append("\\x20")
        elif o < 0x20 or o == 0x7F:
            out.append("\\u{%x}" % o)
        elif fancy and ch == "'" and rnd.random() < 0.3:
            out.append("\\'")
        elif fancy and o < 0x80 and rnd.random() < 0.05:
            out.append("\\x%02x" % o)
        elif fancy and rnd.random() < 0.05:
            out.append("\\u{%x}" % o)
        else:
            out.append(ch)
        pending_cont = False
    out.append('"')
    return "".join(out)


def check_C16(tier, seed):
    out = Outcome("C16", tier, seed)
    wd = tempfile.mkdtemp(prefix="vf16_", dir=build.WORK)
    try:
        cli = c15.build_cli()
        bs = c15.build_bscript()
        ng = 24 if tier == "quick" else 160
        profs = ["types", "memo", "fields", "leftrec", "keywords", "unicode", "include", "mix"]
        derive_sets = [("-", []), ("Debug,Clone,PartialEq,Eq", ["Debug", "Clone", "PartialEq", "Eq"])]
        prefixes = ["", "use std::fmt;\n// p"]
        grammars = []
        for i in range(ng):
            g = ggen.Gen(random.Random("c16/%s/%d" % (seed, i)), ggen.profile(profs[i % len(profs)])).grammar()
            # every third grammar is compiled with a user context type (route equivalence must hold for all settings)
            g.user_ctx = (i % 3 == 2) and any(r.kind == "extern" or (r.kind == "rule" and r.checks()) for r in g.rules) or (i % 6 == 5)
            if not g.user_ctx:
                # context-free variants of the user functions
                for r in g.rules:
                    if r.kind == "extern" and r.func[-1].endswith("c") and r.func[-1][:-1].startswith(("ext_", "probe_")):
                        r.func[-1] = r.func[-1][:-1]
                    if r.kind == "rule":
                        r.directives = [("check", d[1][:-1] + [d[1][-1][:-1]]) if isinstance(d, tuple) and d[1][-1].endswith("c") and d[1][-1][:-1] in ("chk0", "chk1", "chk2", "chk3") else d for d in r.directives]
            text = grender.render(g, random.Random("c16l/%s/%d" % (seed, i)) if i % 2 else None)
            # the same bytes must mean the same to every route: line-ending styles (also *inside* literals), no final
            # newline, odd characters in comments
            if i % 6 == 3:
                text = text.replace("\n", "\r\n") + "CrLfRule = \"begin\r\nend\" 'x\ry' \"a\n\rb\";\r\n# \U0001f680 \r\n"
            elif i % 6 == 4:
                text = text.rstrip("\n") + "\nLfRule = 'l1\nl2\tl3';\t \n# last line without newline: \ufeff\n    "
            elif i % 6 == 1:
                text = text.rstrip()
            gp = os.path.join(wd, "g%d.ebnf" % i)
            with open(gp, "w", encoding="utf-8", newline="") as f:
                f.write(text)
            grammars.append((g, text, gp))
            # rule-permuted twin (same names at other positions): compiled right before the real grammar on the
            # same-process library route, so that anything a compile leaves behind meets a grammar it does not fit
            import copy
            tw = copy.copy(g)
            tw.rules = [g.rules[0]] + list(reversed(g.rules[1:]))
            with open(os.path.join(wd, "tw%d.ebnf" % i), "w", encoding="utf-8", newline="") as f:
                f.write(grender.render(tw, None))
        tuples = 0
        nontriv = 0
        executions = 0
        for di, (dspec, dlist) in enumerate(derive_sets):
            # library route: 3 fresh processes, and 3 times inside one process
            outs = {}
            for rep in range(3):
                jobs = [("g%d" % i, gp, os.path.join(wd, "lib_%d_%d_%d.rs" % (di, rep, i)), dspec, "vfrt::Ctx" if gg.user_ctx else "-") for i, (gg, _, gp) in enumerate(grammars)]
                r = build.run_cgdrv("gen", jobs, wd, nproc=1)
                for i in range(ng):
                    outs.setdefault(i, []).append(("library/process%d" % rep, open(jobs[i][2], encoding="utf-8").read() if r["g%d" % i][0] == "ok" else None))
                    executions += 1
            jobs = []
            for i, (gg, _, gp) in enumerate(grammars):
                for rep in range(3):
                    jobs.append(("g%dr%d" % (i, rep), gp, os.path.join(wd, "rep_%d_%d_%d.rs" % (di, rep, i)), dspec, "vfrt::Ctx" if gg.user_ctx else "-",
                                 os.path.join(wd, "tw%d.ebnf" % i) if rep == 0 else "-"))
            r = build.run_cgdrv("gen", jobs, wd, nproc=1)
            for (jid, gp, op, _, _, _) in jobs:
                i = int(jid[1:jid.index("r")])
                outs[i].append(("library/same-process", open(op, encoding="utf-8").read() if r[jid][0] == "ok" else None))
                executions += 1
            for i, (g, text, gp) in enumerate(grammars):
                # command-line tool (it has no option for a user context type)
                cmd = [cli, gp]
                for d in dlist:
                    cmd += ["-d", d]
                if not g.user_ctx:
                    p = subprocess.run(cmd, stdout=subprocess.PIPE, stderr=subprocess.PIPE, env=build.BASE_ENV, timeout=120)
                    so = p.stdout.decode("utf-8", "replace")
                    executions += 1
                    if p.returncode == 0:
                        body = strip_header(so)
                        outs[i].append(("peginator-cli", body[:-1] if body.endswith("\n") else body))
                    else:
                        outs[i].append(("peginator-cli", None))
                    if i % 4 == 0:
                        # the tool's --trace option only adds a log on stderr
                        p = subprocess.run(cmd + ["--trace"], stdout=subprocess.PIPE, stderr=subprocess.DEVNULL, env=build.BASE_ENV, timeout=300)
                        executions += 1
                        if p.returncode == 0:
                            body = strip_header(p.stdout.decode("utf-8", "replace"))
                            outs[i].append(("peginator-cli --trace", body[:-1] if body.endswith("\n") else body))
                        else:
                            outs[i].append(("peginator-cli --trace", None))
                # build-script helper
                pref = prefixes[(i + di) % len(prefixes)]
                dest = os.path.join(wd, "bs_%d_%d.rs" % (di, i))
                # the destination may already exist in any state: absent, an empty placeholder, a cut-off header
                pre = (i + di) % 4
                if pre == 1:
                    open(dest, "w").close()
                elif pre == 2:
                    with open(dest, "w") as fh:
                        fh.write("// This file was generated by Peginator v0.7.0 built at 1\n")
                elif pre == 3:
                    # an older, much longer output (another grammar, formatted): nothing of it may survive
                    with open(dest, "w") as fh:
                        fh.write("// This file was generated by Peginator v0.6.0 built at 1\n// CRC-32/ISO-HDLC of the grammar file: 00000000\n"
                                 "// Any changes to it will be lost on regeneration\n\n" + "pub struct StaleTail;\n" * 20000)
                order = list("opdfc")
                random.Random("c16o/%s/%d/%d" % (seed, di, i)).shuffle(order)
                p = subprocess.run([bs, "run", gp, dest, build.hexs(pref), dspec, "0", "vfrt::Ctx" if g.user_ctx else "-", "".join(order)], stdout=subprocess.PIPE, stderr=subprocess.PIPE, env=build.BASE_ENV, timeout=120)
                executions += 1
                if p.stdout.decode().strip() == "OK":
                    content = open(dest, encoding="utf-8").read()
                    # header = leading comment lines, then blank line, prefix, newline, code
                    lines = content.split("\n")
                    k = 0
                    while k < len(lines) and lines[k].startswith("//"):
                        k += 1
                    rest = "\n".join(lines[k:])
                    want_start = "\n" + pref + "\n"
                    if not rest.startswith(want_start):
                        out.violation("c16:buildscript-layout", "destination is not header + prefix + code", {"grammar_text": text, "head": content[:400]})
                        outs[i].append(("Compile::file", None))
                    else:
                        outs[i].append(("Compile::file(builder order %s)" % "".join(order), rest[len(want_start):]))
                else:
                    outs[i].append(("Compile::file", None))
            for i, lst in outs.items():
                tuples += 1
                codes = {c for _, c in lst}
                if any(c is not None for c in codes):
                    nontriv += 1
                if len(codes) != 1:
                    groups = {}
                    for route, c in lst:
                        groups.setdefault(c, []).append(route)
                    desc = " | ".join("%s: %s" % (",".join(rs), "rejected" if c is None else "%d bytes" % len(c)) for c, rs in groups.items())
                    a, b = list(groups)[:2]
                    pos = None
                    if a is not None and b is not None:
                        pos = next((k for k in range(min(len(a), len(b))) if a[k] != b[k]), min(len(a), len(b)))
                    out.violation("c16:routes-differ:%s" % "/".join(sorted({r.split("/")[0] for rs in groups.values() for r in rs})),
                                  "the same grammar and settings gave different code: %s%s" % (desc, (" first difference at byte %d: %r vs %r" % (pos, a[pos - 30:pos + 30], b[pos - 30:pos + 30])) if pos is not None else ""),
                                  {"grammar_text": grammars[i][1], "derives": dspec, "routes": desc})
        # ---- concurrent compilations inside one process (a language server, a parallel test harness): every thread compiles
        # every grammar, all at the same time; each result must be the one a single thread of the same binary produces
        cg = build.tool_cgdrv()
        jf = os.path.join(wd, "jobs_mt.tsv")
        with open(jf, "w") as f:
            for i, (gg, _, gp) in enumerate(grammars):
                f.write("\t".join(["g%d" % i, gp, "-", "-", "vfrt::Ctx" if gg.user_ctx else "-"]) + "\n")

        def mt(nth):
            pr = subprocess.run([cg, "genmt", jf, str(nth)], stdout=subprocess.PIPE, stderr=subprocess.DEVNULL, env=build.BASE_ENV, timeout=900)
            res = {}
            lines = pr.stdout.decode("utf-8", "replace").splitlines()
            if pr.returncode != 0 or not lines or lines[-1] != "DONE":
                return None
            for l in lines:
                if l.startswith("MT "):
                    f_ = l.split(" ")
                    res.setdefault(f_[1], []).append((f_[4], f_[5], int(f_[2]), int(f_[3]), f_[6] if len(f_) > 6 else "-"))
            return res
        ref_mt = mt(1)
        con_mt = mt(8)
        mt_compared = 0
        if ref_mt is None or con_mt is None:
            out.inconc("concurrent_compile_driver_failed")
        else:
            for gid, lst in con_mt.items():
                want = {(c, h) for (c, h, _, _, _) in ref_mt.get(gid, [])}
                if len(want) != 1:
                    out.violation("c16:single-thread-nondeterministic", "one thread compiling %s three times gave different results" % gid, {"results": sorted(want)})
                    continue
                for (c, h, t, rnd_, head) in lst:
                    mt_compared += 1
                    executions += 1
                    if (c, h) not in want:
                        gi = int(gid[1:])
                        out.violation("c16:concurrent-compile-differs", "grammar %s compiled on thread %d (round %d) while 7 other threads were compiling gave %s (%s...), a single thread gives %s" % (
                            gid, t, rnd_, c, build.unhex(head)[:100] if head != "-" else "", sorted(want)[0][0]),
                            {"grammar_text": grammars[gi][1], "thread": t, "round": rnd_, "class": c, "single_thread_class": sorted(want)[0][0]})
                        break
        out.coverage["concurrent_compilations_compared"] = mt_compared
        # ---- peginate!: same types, same behaviour
        nm = 8 if tier == "quick" else 48
        units = []
        cases = []
        for i, (g, text, gp) in enumerate(grammars[:nm]):
            if g.user_ctx:
                continue
            libp = os.path.join(wd, "lib_0_0_%d.rs" % i)
            if not os.path.exists(libp):
                continue
            types = check_types(g)
            exports = [(r.name, types[r.name].position) for r in g.exported()]
            am = typeassert.assertion_module(g, None)
            macp = os.path.join(wd, "mac_%d.rs" % i)
            with open(macp, "w", encoding="utf-8") as f:
                # the grammar reaches the macro as a Rust string literal in any of its spellings (escaped, raw, with line
                # continuations); the library route compiles the text that literal denotes
                f.write("peginator_macro::peginate!(%s);\n" % rust_str(text, random.Random("c16m/%s/%d" % (seed, i)), style=(2, 1, 0, 2)[len(units) // 2 % 4]))
            units.append({"gidx": 2 * i, "code_path": libp, "exports": exports, "ctx": False, "extra_rust": am})
            units.append({"gidx": 2 * i + 1, "code_path": macp, "exports": exports, "ctx": False, "extra_rust": am})
            irnd = random.Random("c16i/%s/%d" % (seed, i))
            for r in g.exported():
                for k, s in enumerate(inputs_mod.inputs_for(g, r.name, irnd, n_sent=6, n_total=24)):
                    for which in (0, 1):
                        cases.append(("u%dc%s_%d" % (2 * i + which, r.name, k), 2 * i + which, r.name, 1, 50000000, s))
        mviol = 0
        if units:
            crate = os.path.join(wd, "crate")
            bs_ = 8
            batches = [(build.unique_bin("m%d" % (j // bs_)), units[j:j + bs_]) for j in range(0, len(units), bs_)]
            build.write_batch_crate(crate, batches, macro_dep=True)
            tgt = build.tool_vfrt("dev-hooks")
            ok, failures, proc = build.build_batch_crate(crate, tgt, build.flavor_flags("dev-hooks"))
            for name, fl in failures.items():
                for files, msg in fl[:2]:
                    out.violation("c16:macro-route-does-not-compile", "crate with peginate! expansion + library code + type assertions does not compile: %s" % msg[:400], {"rustc": msg[:1500], "files": files})
            for name, us in batches:
                if name not in ok:
                    continue
                gids = {u["gidx"] for u in us}
                cp = os.path.join(wd, name + ".cases.tsv")
                mine = [c for c in cases if c[1] in gids]
                with open(cp, "w") as f:
                    for c in mine:
                        f.write("%s\t%d\t%s\t%d\t%d\t%s\n" % (c[0], c[1], c[2], c[3], c[4], build.hexs(c[5])))
                lp = os.path.join(wd, name + ".log")
                build.run_batch_bin(ok[name], cp, lp, len(mine))
                obs = build.parse_log(lp)
                os.remove(ok[name])
                byc = {}
                for c in mine:
                    res = obs.get(c[0], {}).get("noop", [{}])[0].get("result")
                    byc.setdefault((c[1] // 2, c[2], c[5]), {})[c[1] % 2] = res
                for (gi, rule, s), d in byc.items():
                    if 0 in d and 1 in d:
                        tuples += 1
                        executions += 2
                        if d[0] and d[0][0] == "ok" or (d[0] and d[0][0] == "err" and d[0][1] > 0):
                            nontriv += 1
                        if d[0] != d[1]:
                            out.violation("c16:macro-behaviour-differs", "peginate! parser and library-route parser disagree on input %r (rule %s): %s vs %s" % (s, rule, d[1], d[0]),
                                          {"grammar_text": grammars[gi][1], "rule": rule, "input": s, "library": d[0], "macro": d[1]})
        out.coverage["route_executions"] = executions
        out.coverage["macro_units"] = len(units) // 2
        out.samples = [{"grammar_text": grammars[i][1][:400], "routes": ["library x3 processes", "library x3 in-process", "peginator-cli", "Compile::file", "peginate! (first %d grammars)" % nm]} for i in (0, 1)]
    finally:
        shutil.rmtree(wd, ignore_errors=True)
    rule = ("per (grammar, derive set {default, Debug+Clone+PartialEq+Eq}, prefix): library route in 3 fresh processes and 3 times within one process, peginator-cli (with -d), Compile::file (header and prefix stripped; random builder-call order; destination absent / empty / cut-off header / a longer stale file) - the set of distinct outputs must have size 1 (bytes); the same-process route compiles a rule-permuted twin first; 8 threads of one process compile every grammar at the same time and must give what one thread gives; grammar files include CRLF / CR inside literals and no final newline; "
            "peginate!: macro expansion and library-route code compiled side by side with the documented-type assertion module applied to both, then run on the same inputs (results must be equal). "
            "evaluations = compared tuples; non-trivial = tuple whose grammar is accepted / parse progressed.")
    return out.finish(tuples, nontriv, rule, floor=20)
