"""writes MANIFEST.json from the registry (run: python3 vfw/mkmanifest.py)"""
import json
import os
import sys

sys.path.insert(0, os.path.dirname(os.path.abspath(__file__)))
VERIF = os.path.dirname(os.path.dirname(os.path.abspath(__file__)))

CLAIMS = {
    "C01": ("reference-model monitor over recorded executions", "4 C01"),
    "C02": ("reference-model monitor on Debug trees", "4 C02"),
    "C03": ("generated exact-type assertions observed through rustc", "4 C03"),
    "C04": ("char-boundary assertion hook + offset/substring invariants on event logs; Miri/ASan/valgrind legs in thorough", "4 C04"),
    "C05": ("metamorphic comparison of executions across @memoize variants + model", "4 C05"),
    "C06": ("invariant monitor on event logs (memo probes / nested invocations)", "4 C06"),
    "C07": ("reference-model monitor (literal seed-and-grow) + logical step budget", "4 C07"),
    "C08": ("reference-model + whitespace-injection monitor", "4 C08"),
    "C09": ("reference-model + structural span invariants on trees and traces", "4 C09"),
    "C10": ("reference-model monitor of failed-attempt bookkeeping", "4 C10"),
    "C11": ("bounded-exhaustive + random oracle-by-definition monitor of the pretty printer", "4 C11"),
    "C12": ("metamorphic rendering monitor of the real grammar front end", "4 C12"),
    "C13": ("differential monitor include vs inlined body", "4 C13"),
    "C14": ("call-log monitor of user functions + model with mirrored functions", "4 C14"),
    "C15": ("subprocess outcome monitor over hostile grammar corpus", "4 C15"),
    "C16": ("differential monitor across processes and integration routes", "4 C16"),
    "C17": ("two-stage rebuild differential monitor", "4 C17"),
    "C18": ("history + file-system model monitor of Compile::run", "4 C18"),
    "C19": ("trace-balance invariant + tracer-equality monitor", "4 C19"),
    "C20": ("sequential-vs-concurrent result monitor; TSan and Miri legs in thorough", "4 C20"),
}


def main():
    import registry
    implemented = set(registry.implemented())
    props = [json.loads(l) for l in open(os.path.join(VERIF, "properties.jsonl"))]
    checks = []
    na = []
    for p in props:
        pid = p["id"]
        if pid in implemented:
            tech, ref = CLAIMS[pid]
            checks.append({
                "property_id": pid,
                "quick_cmd": "./vf check %s --tier quick" % pid,
                "thorough_cmd": "./vf check %s --tier thorough" % pid,
                "evidence_file": "/verif/evidence/%s.json" % pid,
                "replay_cmd_template": "./vf replay {path}",
                "engine": "vf",
                "level_claimed": {"category": "exploration",
                                  "text": "runtime monitoring: the property held on the executions observed (counts in the evidence file); " + tech,
                                  "design_ref": "DESIGN.md §" + ref},
                "level_note": "trusted: rustc/cargo (+Miri/sanitizers/valgrind where used), the Python reference model / Debug reader / monitors, the two cfg(peginator_verif) hooks; sampled grammars (<= ~10 rules, depth <= 3) and inputs (<= 48 bytes unless stated)",
                "technique": tech,
            })
        else:
            na.append({"property_id": pid, "reason": "check under construction in this round (runtime monitor designed in DESIGN.md, not yet registered)"})
    m = {
        "version": 1,
        "setup_cmd": "./vf setup",
        "hooks": {
            "guard": "peginator_verif",
            "enable": "RUSTFLAGS=\"--cfg peginator_verif\" (set by the harness builds; cfg flag, not a cargo feature)",
            "baseline_off_cmd": "cd /repo && cargo test --workspace --no-fail-fast --offline",
            "source_commits": ["d5abf58", "71fd5be"],
            "add_only": True,
        },
        "engines": [{"name": "vf", "path": "/verif/vf", "serves_properties": sorted(implemented),
                     "kind_free_text": "runtime monitoring harness: random grammar generator -> real P-gen -> rustc -> real parsers under a recording tracer / hooks -> offline monitors (reference model, metamorphic, invariants); subprocess outcome monitors; sanitizer legs"}],
        "checks": checks,
        "not_applicable": na,
        "notes": "All verdicts are three-valued (VIOLATION / held on observed / INCONCLUSIVE lines); known_findings.json lists fixed defects and open findings.",
    }
    with open(os.path.join(VERIF, "MANIFEST.json"), "w") as f:
        json.dump(m, f, indent=1)
    print("manifest: %d checks, %d not claimed" % (len(checks), len(na)))


if __name__ == "__main__":
    main()
