"""Reader and writer for Rust `{:?}` (derive(Debug)) renderings as generic trees.

tree :=  ('struct', name, {field: tree})   Name { f: v, .. }
       | ('call', name, [tree])            Some(x)  Variant(x)  XNum(5)
       | ('ident', name)                   None  UnitStruct  UnitVariant
       | ('list', [tree])                  [a, b]
       | ('str', s) | ('char', c) | ('num', n) | ('range', a, b) | ('unit',)
"""
import json
import os

_SIMPLE = {"n": "\n", "r": "\r", "t": "\t", "0": "\0", "\\": "\\", "'": "'", '"': '"'}


class DebugSyntax(Exception):
    pass


class _P:
    def __init__(self, s):
        self.s = s
        self.i = 0

    def peek(self):
        return self.s[self.i] if self.i < len(self.s) else ""

    def ws(self):
        while self.i < len(self.s) and self.s[self.i] in " \n":
            self.i += 1

    def expect(self, t):
        if not self.s.startswith(t, self.i):
            raise DebugSyntax("expected %r at %d in %r" % (t, self.i, self.s[:200]))
        self.i += len(t)

    def quoted(self, q):
        self.expect(q)
        out = []
        while True:
            if self.i >= len(self.s):
                raise DebugSyntax("unterminated literal")
            c = self.s[self.i]
            if c == q:
                self.i += 1
                return "".join(out)
            if c == "\\":
                n = self.s[self.i + 1]
                if n == "u":
                    j = self.s.index("}", self.i)
                    out.append(chr(int(self.s[self.i + 3:j], 16)))
                    self.i = j + 1
                elif n == "x":
                    out.append(chr(int(self.s[self.i + 2:self.i + 4], 16)))
                    self.i += 4
                else:
                    out.append(_SIMPLE[n])
                    self.i += 2
            else:
                out.append(c)
                self.i += 1

    def value(self):
        self.ws()
        c = self.peek()
        if c == '"':
            return ("str", self.quoted('"'))
        if c == "'":
            return ("char", self.quoted("'"))
        if c == "[":
            self.i += 1
            items = []
            self.ws()
            while self.peek() != "]":
                items.append(self.value())
                self.ws()
                if self.peek() == ",":
                    self.i += 1
                    self.ws()
            self.i += 1
            return ("list", items)
        if c == "(":
            self.expect("()")
            return ("unit",)
        if c.isdigit():
            j = self.i
            while j < len(self.s) and self.s[j].isdigit():
                j += 1
            a = int(self.s[self.i:j])
            self.i = j
            if self.s.startswith("..", self.i):
                self.i += 2
                j = self.i
                while j < len(self.s) and self.s[j].isdigit():
                    j += 1
                b = int(self.s[self.i:j])
                self.i = j
                return ("range", a, b)
            return ("num", a)
        # identifier
        j = self.i
        while j < len(self.s) and (self.s[j].isalnum() or self.s[j] in "_#"):
            j += 1
        if j == self.i:
            raise DebugSyntax("unexpected %r at %d in %r" % (c, self.i, self.s[:200]))
        name = self.s[self.i:j]
        if name.startswith("r#"):
            name = name[2:]
        self.i = j
        if self.peek() == "(":
            self.i += 1
            args = []
            self.ws()
            while self.peek() != ")":
                args.append(self.value())
                self.ws()
                if self.peek() == ",":
                    self.i += 1
                    self.ws()
            self.i += 1
            return ("call", name, args)
        if self.s.startswith(" {", self.i):
            self.i += 2
            fields = {}
            self.ws()
            while self.peek() != "}":
                j = self.i
                while self.s[j] != ":":
                    j += 1
                fname = self.s[self.i:j]
                if fname.startswith("r#"):
                    fname = fname[2:]
                self.i = j + 1
                fields[fname] = self.value()
                self.ws()
                if self.peek() == ",":
                    self.i += 1
                    self.ws()
            self.i += 1
            return ("struct", name, fields)
        return ("ident", name)


def parse(s):
    p = _P(s)
    v = p.value()
    p.ws()
    if p.i != len(s):
        raise DebugSyntax("trailing text at %d in %r" % (p.i, s[:200]))
    return v


# --- writer (needs the escape table measured from the real toolchain) --------------------------
_TABLE = None


def load_table(path):
    global _TABLE
    t = {}
    with open(path) as f:
        for line in f:
            cp, cd, sd = line.rstrip("\n").split("\t")
            t[int(cp)] = (bytes.fromhex(cd).decode(), bytes.fromhex(sd).decode())
    _TABLE = t


class Unsupported(Exception):
    pass


def _esc(c, in_str):
    e = _TABLE.get(ord(c))
    if e is None:
        raise Unsupported("no Debug escape known for U+%04X" % ord(c))
    return e[1] if in_str else e[0]


def write(v):
    k = v[0]
    if k == "struct":
        if not v[2]:
            return v[1]
        return v[1] + " { " + ", ".join("%s: %s" % (f, write(x)) for f, x in v[2].items()) + " }"
    if k == "call":
        return v[1] + "(" + ", ".join(write(x) for x in v[2]) + ")"
    if k == "ident":
        return v[1]
    if k == "list":
        return "[" + ", ".join(write(x) for x in v[1]) + "]"
    if k == "str":
        return '"' + "".join(_esc(c, True) for c in v[1]) + '"'
    if k == "char":
        return "'" + _esc(v[1], False) + "'"
    if k == "num":
        return str(v[1])
    if k == "range":
        return "%d..%d" % (v[1], v[2])
    if k == "unit":
        return "()"
    raise TypeError(v)


def tree_eq(a, b):
    """structural equality; struct fields by name (order-insensitive)"""
    return a == b


def show(v, limit=400):
    try:
        s = write(v)
    except Exception:
        s = repr(v)
    return s if len(s) <= limit else s[:limit] + "…"
