"""Grammar AST used by the generator, the renderer and the reference model, plus the analyses that
keep generated grammars inside the properties' quantifiers (well-formedness) and the documented
field/arity/type mapping (C02 wrappers, C03 assertions).

Shape mirrors the documented syntax exactly (so that C12 can compare it with Debug(Grammar)):
  Cho(alts=[Seq]) ; Seq(parts=[delimited]) ;
  delimited = Grp(body:Cho) | Opt(body:Cho) | Clo(body:Cho, plus) | Neg(expr:delimited) | Pos(expr:delimited)
            | Rng(a,b) | Lit(s, insens) | Eoi() | Inc(rule) | Ref(rule, field, boxed)
"""
from dataclasses import dataclass, field as dfield
from typing import List, Optional, Dict, Tuple, Any


class Invalid(Exception):
    """the grammar is outside what the compiler documents as acceptable (or outside a quantifier)"""


@dataclass
class Lit:
    s: str
    insens: bool = False
    # rendering hints (not part of the denotation)
    quote: str = "'"
    spell: Optional[List[str]] = None  # spelling per character, chosen by the renderer


@dataclass
class Rng:
    a: str
    b: str


@dataclass
class Eoi:
    pass


@dataclass
class Ref:
    rule: str
    field: Optional[str] = None  # None = bare rule match, '@' = override, else field name
    boxed: bool = False


@dataclass
class Inc:
    rule: str


@dataclass
class Grp:
    body: "Cho"


@dataclass
class Opt:
    body: "Cho"


@dataclass
class Clo:
    body: "Cho"
    plus: bool = False


@dataclass
class Neg:
    expr: Any


@dataclass
class Pos:
    expr: Any


@dataclass
class Seq:
    parts: List[Any]


@dataclass
class Cho:
    alts: List[Seq]


# directives of a normal rule, in written order:
#   'string' 'no_skip_ws' 'export' 'position' 'memoize' 'leftrec' ('check', [path parts])
@dataclass
class Rule:
    name: str
    body: Cho
    directives: List[Any] = dfield(default_factory=list)

    kind = "rule"

    def has(self, d):
        return d in self.directives

    def checks(self):
        return [d[1] for d in self.directives if isinstance(d, tuple) and d[0] == "check"]


@dataclass
class CharRule:
    name: str
    parts: List[Any]  # ('lit', c) | ('rng', a, b) | ('ref', name)
    checks_before: List[List[str]] = dfield(default_factory=list)
    checks_after: List[List[str]] = dfield(default_factory=list)

    kind = "char"

    def checks(self):
        return self.checks_before + self.checks_after


@dataclass
class ExternRule:
    name: str
    func: List[str]
    ret: Optional[List[str]] = None

    kind = "extern"


@dataclass
class Grammar:
    rules: List[Any]
    user_ctx: bool = False  # compiled with a user context type
    derives: Optional[List[str]] = None  # None = default

    def rule(self, name):
        for r in self.rules:
            if r.name == name:
                return r
        return None

    def normal_rules(self):
        return [r for r in self.rules if r.kind == "rule"]

    def exported(self):
        return [r for r in self.rules if r.kind == "rule" and r.has("export")]


BUILTIN_RULES = ("char", "Whitespace")

# ---------------------------------------------------------------------------------------------
# documented field / arity / type mapping
ONE, OPTIONAL, MULTIPLE = 0, 1, 2


@dataclass
class FieldDesc:
    name: str
    arity: int
    types: Dict[str, bool]  # type name -> boxed


def _merge_types(a: Dict[str, bool], b: Dict[str, bool]):
    for k, v in b.items():
        a[k] = a.get(k, False) or v


def fields_of(e, g: Grammar, _stack=()) -> List[FieldDesc]:
    """ordered field list of an expression per doc/syntax.md ("Fields")."""
    if isinstance(e, Ref):
        if e.field is None:
            return []
        return [FieldDesc("_override" if e.field == "@" else e.field, ONE, {e.rule: e.boxed})]
    if isinstance(e, (Lit, Rng, Eoi)):
        return []
    if isinstance(e, Grp):
        return fields_of(e.body, g, _stack)
    if isinstance(e, Opt):
        fs = fields_of(e.body, g, _stack)
        for f in fs:
            if f.arity == ONE:
                f.arity = OPTIONAL
        return fs
    if isinstance(e, Clo):
        fs = fields_of(e.body, g, _stack)
        for f in fs:
            f.arity = MULTIPLE
        return fs
    if isinstance(e, (Neg, Pos)):
        if fields_of(e.expr, g, _stack):
            raise Invalid("fields inside a lookahead")
        return []
    if isinstance(e, Inc):
        r = g.rule(e.rule)
        if r is None or r.kind != "rule":
            raise Invalid("include of a missing / @char / @extern rule")
        if e.rule in _stack:
            raise Invalid("include cycle")
        return fields_of(r.body, g, _stack + (e.rule,))
    if isinstance(e, Seq):
        out: List[FieldDesc] = []
        for p in e.parts:
            for nf in fields_of(p, g, _stack):
                for o in out:
                    if o.name == nf.name:
                        o.arity = MULTIPLE
                        _merge_types(o.types, nf.types)
                        break
                else:
                    out.append(nf)
        return out
    if isinstance(e, Cho):
        out = []
        first = True
        for alt in e.alts:
            nfs = fields_of(alt, g, _stack)
            if not first:
                for o in out:
                    if o.arity == ONE and not any(n.name == o.name for n in nfs):
                        o.arity = OPTIONAL
            for nf in nfs:
                for o in out:
                    if o.name == nf.name:
                        o.arity = max(o.arity, nf.arity)
                        _merge_types(o.types, nf.types)
                        break
                else:
                    if not first and nf.arity == ONE:
                        nf.arity = OPTIONAL
                    out.append(nf)
            first = False
        return out
    raise TypeError(e)


@dataclass
class RuleType:
    """public type of a rule according to the documented mapping"""
    kind: str  # 'struct' 'unit' 'alias' 'enum' 'string' 'stringpos' 'char' 'extern'
    fields: List[FieldDesc] = dfield(default_factory=list)
    position: bool = False
    ret: Optional[List[str]] = None


def rule_type(r, g: Grammar) -> RuleType:
    if r.kind == "char":
        return RuleType("char")
    if r.kind == "extern":
        return RuleType("extern", ret=r.ret)
    fs = fields_of(r.body, g)
    pos = r.has("position")
    if r.has("string"):
        if r.has("export"):
            raise Invalid("@string with @export")
        return RuleType("stringpos" if pos else "string", position=pos)
    if len(fs) == 1 and fs[0].name == "_override":
        f = fs[0]
        if len(f.types) <= 1:
            if r.has("export") or pos:
                raise Invalid("@export/@position on a plain override")
            return RuleType("alias", fs)
        if f.arity != ONE:
            raise Invalid("multi-type override in optional/closure")
        return RuleType("enum", fs, position=pos)
    if any(f.name == "_override" for f in fs):
        raise Invalid("mixing override and named fields")
    if not fs and not pos:
        return RuleType("unit")
    return RuleType("struct", fs, position=pos)


# ---------------------------------------------------------------------------------------------
# well-formedness analyses (conservative)

def subexprs(e):
    yield e
    if isinstance(e, (Grp, Opt, Clo)):
        yield from subexprs(e.body)
    elif isinstance(e, (Neg, Pos)):
        yield from subexprs(e.expr)
    elif isinstance(e, Seq):
        for p in e.parts:
            yield from subexprs(p)
    elif isinstance(e, Cho):
        for a in e.alts:
            yield from subexprs(a)


def all_exprs(g: Grammar):
    for r in g.normal_rules():
        for e in subexprs(r.body):
            yield r, e


ZERO_WIDTH_EXTERNS = ("ext_zero",)


def compute_nullable(g: Grammar) -> Dict[str, bool]:
    """over-approximation of 'can succeed without consuming' per rule (least fixpoint)."""
    nul = {r.name: False for r in g.rules}
    for r in g.rules:
        if r.kind == "extern":
            fn = r.func[-1].rstrip("c") if r.func[-1].endswith("c") else r.func[-1]
            nul[r.name] = fn.startswith("probe_") or fn in ZERO_WIDTH_EXTERNS or r.func[-1].startswith("probe_")
    changed = True
    while changed:
        changed = False
        for r in g.normal_rules():
            v = expr_nullable(r.body, g, nul)
            if v and not nul[r.name]:
                nul[r.name] = True
                changed = True
    return nul


def expr_nullable(e, g, nul, _stack=()) -> bool:
    if isinstance(e, Lit):
        return e.s == ""
    if isinstance(e, Rng):
        return False
    if isinstance(e, Eoi):
        return True
    if isinstance(e, Ref):
        if e.rule == "char":
            return False
        if e.rule == "Whitespace" and g.rule("Whitespace") is None:
            return True
        return nul.get(e.rule, True)
    if isinstance(e, Inc):
        r = g.rule(e.rule)
        if r is None or r.kind != "rule" or e.rule in _stack:
            return True
        return expr_nullable(r.body, g, nul, _stack + (e.rule,))
    if isinstance(e, Grp):
        return expr_nullable(e.body, g, nul, _stack)
    if isinstance(e, Opt):
        return True
    if isinstance(e, Clo):
        return (not e.plus) or expr_nullable(e.body, g, nul, _stack)
    if isinstance(e, (Neg, Pos)):
        return True
    if isinstance(e, Seq):
        return all(expr_nullable(p, g, nul, _stack) for p in e.parts)
    if isinstance(e, Cho):
        return any(expr_nullable(a, g, nul, _stack) for a in e.alts)
    raise TypeError(e)


def left_calls(e, g, nul, out: set, _stack=()) -> None:
    """rules that can be called at the entry offset of e (through nullable prefixes)."""
    if isinstance(e, Ref):
        if e.rule not in BUILTIN_RULES or g.rule(e.rule) is not None:
            out.add(e.rule)
    elif isinstance(e, Inc):
        r = g.rule(e.rule)
        if r is not None and r.kind == "rule" and e.rule not in _stack:
            left_calls(r.body, g, nul, out, _stack + (e.rule,))
    elif isinstance(e, (Grp, Opt, Clo)):
        left_calls(e.body, g, nul, out, _stack)
    elif isinstance(e, (Neg, Pos)):
        left_calls(e.expr, g, nul, out, _stack)
    elif isinstance(e, Seq):
        for p in e.parts:
            left_calls(p, g, nul, out, _stack)
            if not expr_nullable(p, g, nul):
                break
    elif isinstance(e, Cho):
        for a in e.alts:
            left_calls(a, g, nul, out, _stack)


def left_call_graph(g: Grammar, nul=None) -> Dict[str, set]:
    nul = nul or compute_nullable(g)
    graph = {}
    for r in g.rules:
        s = set()
        if r.kind == "rule":
            left_calls(r.body, g, nul, s)
            # a skipping rule calls the user Whitespace rule at its entry offset
            if g.rule("Whitespace") is not None and not r.has("no_skip_ws"):
                s.add("Whitespace")
        elif r.kind == "char":
            for p in r.parts:
                if p[0] == "ref":
                    s.add(p[1])
        graph[r.name] = s
    return graph


def sccs(graph: Dict[str, set]) -> List[List[str]]:
    index = {}
    low = {}
    onstack = set()
    stack = []
    out = []
    counter = [0]

    def strong(v):
        index[v] = low[v] = counter[0]
        counter[0] += 1
        stack.append(v)
        onstack.add(v)
        for w in graph.get(v, ()):
            if w not in graph:
                continue
            if w not in index:
                strong(w)
                low[v] = min(low[v], low[w])
            elif w in onstack:
                low[v] = min(low[v], index[w])
        if low[v] == index[v]:
            comp = []
            while True:
                w = stack.pop()
                onstack.discard(w)
                comp.append(w)
                if w == v:
                    break
            out.append(comp)

    for v in graph:
        if v not in index:
            strong(v)
    return out


def left_recursive_cycles(g: Grammar, nul=None) -> List[List[str]]:
    graph = left_call_graph(g, nul)
    out = []
    for comp in sccs(graph):
        if len(comp) > 1 or comp[0] in graph[comp[0]]:
            out.append(comp)
    return out


def check_wellformed(g: Grammar) -> None:
    """raise Invalid unless g is inside the quantifier of C01 (and C05/C07 where relevant)."""
    names = [r.name for r in g.rules]
    if len(set(names)) != len(names):
        raise Invalid("duplicate rule names")
    nul = compute_nullable(g)
    for r, e in all_exprs(g):
        if isinstance(e, Ref):
            if e.rule not in BUILTIN_RULES and g.rule(e.rule) is None:
                raise Invalid("undefined rule " + e.rule)
            if e.rule == "Whitespace" and e.field is not None and g.rule("Whitespace") is None:
                raise Invalid("built-in Whitespace as a field type")
        if isinstance(e, Inc):
            t = g.rule(e.rule)
            if t is None or t.kind != "rule":
                raise Invalid("bad include")
        if isinstance(e, Clo) and expr_nullable(e.body, g, nul):
            raise Invalid("closure body can succeed without consuming")
    for r in g.rules:
        if r.kind == "char":
            for p in r.parts:
                if p[0] == "ref":
                    t = g.rule(p[1])
                    if p[1] != "char" and (t is None or t.kind != "char"):
                        raise Invalid("@char rule part must be a @char rule")
    for comp in left_recursive_cycles(g, nul):
        rules = [g.rule(n) for n in comp]
        special = [r for r in rules if r.kind == "rule" and (r.has("leftrec") or r.has("memoize"))]
        lr = [r for r in rules if r.kind == "rule" and r.has("leftrec")]
        if len(lr) != 1 or len(special) != 1:
            raise Invalid("left recursion must go through exactly one @leftrec rule and plain rules")
    ws = g.rule("Whitespace")
    if ws is not None:
        if ws.kind != "rule" or not ws.has("no_skip_ws"):
            raise Invalid("Whitespace must be a @no_skip_ws rule")
        # everything reachable from Whitespace must be @no_skip_ws
        # (a rule that is only *included* runs with the includer's settings: its own directives do not matter)
        seen, todo = set(), [("Whitespace", False)]
        while todo:
            n, included = todo.pop()
            if (n, included) in seen:
                continue
            seen.add((n, included))
            t = g.rule(n)
            if t is None:
                continue
            if t.kind == "rule":
                if not included and not t.has("no_skip_ws"):
                    raise Invalid("rules called by Whitespace must be @no_skip_ws")
                if t.has("memoize") or t.has("leftrec") or t.checks():
                    raise Invalid("keep the Whitespace cone simple")
                for e in subexprs(t.body):
                    if isinstance(e, Ref):
                        todo.append((e.rule, False))
                    if isinstance(e, Inc):
                        todo.append((e.rule, True))
    # type-level validity (raises Invalid)
    check_types(g)


def check_types(g: Grammar) -> Dict[str, RuleType]:
    types = {}
    for r in g.rules:
        types[r.name] = rule_type(r, g)
    for r in g.rules:
        if r.kind != "rule":
            continue
        rt = types[r.name]
        # (@memoize / @leftrec without Clone in the derive set is a documented restriction: the compiler must reject it;
        #  the generator may produce such settings on purpose, so it is not treated as ill-formed here)
        for f in rt.fields:
            for t in f.types:
                if t == "char":
                    continue
                if t == "Whitespace" and g.rule(t) is None:
                    raise Invalid("builtin Whitespace as field type")
                if g.rule(t) is None:
                    raise Invalid("undefined field type")
        if rt.kind == "enum" and rt.position:
            for t in rt.fields[0].types:
                tt = types.get(t)
                if tt is None or not tt.position:
                    raise Invalid("@position enum override needs @position variants")
        if r.name == "Whitespace" and not r.has("no_skip_ws"):
            raise Invalid("skipping Whitespace rule")
    # by-value containment cycles must be broken by Box or Vec
    graph = {}
    alias_graph = {}
    for name, rt in types.items():
        edges = set()
        aedges = set()
        for f in rt.fields:
            for t, boxed in f.types.items():
                if t == "char":
                    continue
                if rt.kind == "alias":
                    aedges.add(t)
                if not boxed and f.arity != MULTIPLE:
                    edges.add(t)
        graph[name] = edges
        alias_graph[name] = aedges if rt.kind == "alias" else set()
    for comp in sccs(graph):
        if len(comp) > 1 or comp[0] in graph[comp[0]]:
            raise Invalid("recursive type without Box/Vec")
    for comp in sccs(alias_graph):
        if len(comp) > 1 or comp[0] in alias_graph[comp[0]]:
            raise Invalid("alias cycle")
    return types
