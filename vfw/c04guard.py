"""P-gen side of the mechanism that keeps the ASCII-only case-insensitive matchers sound (C04 / C15):
a case-insensitive literal containing any non-ASCII character - in any spelling, alone or inside a longer
literal - must be rejected; ASCII ones in any spelling must be accepted."""
import os
import shutil
import tempfile

import build

NON_ASCII = [chr(x) for x in (0xE9, 0x80, 0xFF, 0xDF, 0x100, 0x17F, 0x212A, 0x7FF, 0x800, 0xFFFF, 0x10000, 0x1F600, 0x10FFFF, 0xE0, 0xC9, 0x131)]
ASCII = ["a", "Z", "0", "-", " ", chr(0x7F), chr(0), "~", "\n", "'"]
BS = "\\"


def spellings(c):
    o = ord(c)
    sp = []
    if c not in (BS, "'", '"') and o >= 0x20 and o != 0x7F:
        sp.append(c)
    if o <= 0xFF:
        sp += [BS + "x%02x" % o, BS + "x%02X" % o]
    if o <= 0xFFFF:
        sp.append(BS + "u%04x" % o)
    sp.append(BS + "U00%06x" % o)
    sp.append(BS + "u{%x}" % o)
    sp.append(BS + "u{%06X}" % o)
    if c == "\n":
        sp.append(BS + "n")
    if c == "'":
        sp.append(BS + "'")
    return sp


def insensitive_guard_table(out, tier):
    wd = tempfile.mkdtemp(prefix="vf04g_", dir=build.WORK)
    try:
        jobs = []
        meta = {}
        k = 0
        for want, pool in (("err", NON_ASCII), ("ok", ASCII)):
            for c in pool:
                for sp in spellings(c):
                    for shape, lit in (("single", sp), ("start", sp + "bc"), ("middle", "a" + sp + "c"), ("end", "ab" + sp), ("double", sp + sp)):
                        for q in ("'", '"'):
                            text = "@export A = 'x' i%s%s%s {'y'};\n" % (q, lit, q)
                            gp = os.path.join(wd, "g%d.ebnf" % k)
                            with open(gp, "w", encoding="utf-8") as f:
                                f.write(text)
                            jobs.append(("g%d" % k, gp, "-", "-", "-"))
                            meta["g%d" % k] = (want, c, sp, shape, text)
                            k += 1
        r = build.run_cgdrv("gen", jobs, wd)
        bad = {}
        for jid, (want, c, sp, shape, text) in meta.items():
            cls = r.get(jid, ("missing",))[0]
            if cls in ("panic", "abort"):
                bad.setdefault("insens-guard:%s" % cls, ("compiler %s on %r" % (cls, text), text))
            elif want == "err" and cls == "ok":
                kind = "raw" if not sp.startswith(BS) else sp[:2] + ("{" if "{" in sp else "")
                key = "insens-guard:accepted-non-ascii:%s:%s" % (shape, kind)
                bad.setdefault(key, ("case-insensitive literal with the non-ASCII character U+%04X spelled %s (%s) was accepted; the ASCII-only matcher can then split UTF-8 sequences" % (ord(c), sp, shape), text))
            elif want == "ok" and cls != "ok":
                key = "insens-guard:rejected-ascii:%s" % shape
                bad.setdefault(key, ("ASCII case-insensitive literal spelled %s (%s) was rejected: %s" % (sp, shape, cls), text))
        for key, (msg, text) in bad.items():
            out.violation(key, msg, {"grammar_text": text})
        out.coverage["insensitive_guard_grammars"] = len(meta)
        return len(meta)
    finally:
        shutil.rmtree(wd, ignore_errors=True)
