"""Evidence / verdict plumbing shared by all checks (DESIGN.md §5, §7a)."""
import hashlib
import json
import os
import sys
import time

import build

# evidence committed under /verif/evidence must come from runs against /repo itself; runs against another tree
# (VERIF_REPO = a scratch worktree with a seeded change) write into their own work area
EVID = os.path.join(build.VERIF, "evidence") if build.REPO == "/repo" else os.path.join(build.WORK, "evidence")
REPLAY = os.path.join(build.VERIF, "replay") if build.REPO == "/repo" else os.path.join(build.WORK, "replay")
KNOWN = os.path.join(build.VERIF, "known_findings.json")

ASSUMPTIONS = [
    "rustc/cargo (and Miri / sanitizer runtimes / valgrind where used) are trusted",
    "the Python reference model, type mapper and Rust-Debug reader are trusted (validated against the pinned suite and by seeded breakages)",
    "harness user functions are pure (as the properties require)",
    "verdict is 'held on the executions observed', not a proof",
]


def load_known():
    if not os.path.exists(KNOWN):
        return []
    with open(KNOWN) as f:
        return json.load(f)


class Outcome:
    def __init__(self, pid, tier, seed):
        self.pid = pid
        self.tier = tier
        self.seed = seed
        self.violations = []      # dict(signature, msg, witness...)
        self.inconclusive = {}    # reason -> count
        self.coverage = {}
        self.samples = []
        self.notes = []
        self.t0 = time.time()

    def violation(self, signature, msg, witness):
        self.violations.append({"signature": signature, "msg": msg, "witness": witness})

    def inconc(self, reason, n=1):
        if n:
            self.inconclusive[reason] = self.inconclusive.get(reason, 0) + n

    def finish(self, evaluations, distinct_nontrivial, rule, exhaustive=False, floor=2, extra=None):
        """write evidence, print verdict lines, return exit code"""
        known = [k for k in load_known() if k.get("property") == self.pid and k.get("status") == "finding"]
        known_seen = []
        real = []
        for v in self.violations:
            hit = None
            for k in known:
                if k["signature"] == v["signature"]:
                    hit = k
                    break
            if hit:
                known_seen.append(hit)
            else:
                real.append(v)
        printed = set()
        for k in known_seen:
            if k["signature"] not in printed:
                printed.add(k["signature"])
                print("KNOWN-FINDING: property=%s %s [%s]" % (self.pid, k["what"], k["signature"]))
        rc = 0
        os.makedirs(REPLAY, exist_ok=True)
        shown = set()
        for v in real:
            if v["signature"] in shown:
                continue
            shown.add(v["signature"])
            h = hashlib.sha256((v["signature"] + json.dumps(v["witness"], sort_keys=True, default=str)).encode()).hexdigest()[:12]
            path = os.path.join(REPLAY, "%s-%s.json" % (self.pid, h))
            w = dict(v["witness"])
            w.update({"property": self.pid, "seed": self.seed, "tier": self.tier, "signature": v["signature"],
                      "message": v["msg"], "how_to_replay": "./vf replay %s" % path})
            with open(path, "w") as f:
                json.dump(w, f, indent=1, default=str)
            print("VIOLATION property=%s replay=%s" % (self.pid, path))
            print("  " + v["msg"][:400])
            rc = 1
            if len(shown) >= 10:
                break
        if self.inconclusive:
            print("INCONCLUSIVE property=%s %s" % (self.pid, json.dumps(self.inconclusive, sort_keys=True)))
        if distinct_nontrivial < floor and rc == 0:
            print("INCONCLUSIVE property=%s only %d non-trivial cases observed (floor %d)" % (self.pid, distinct_nontrivial, floor))
            self.inconc("below_nontrivial_floor")
        cov = {"evaluations": int(evaluations), "distinct_nontrivial": int(distinct_nontrivial), "rule": rule,
               "samples": self.samples[:5] or [{"note": "no sample recorded"}], "exhaustive": bool(exhaustive),
               "inconclusive": self.inconclusive, "known_findings_seen": sorted(printed),
               "violation_signatures": sorted(shown)}
        cov.update(self.coverage)
        if extra:
            cov.update(extra)
        ev = {"property_id": self.pid, "tier": self.tier, "seed": int(self.seed), "level": "exploration",
              "coverage": cov, "assumptions": ASSUMPTIONS, "wall_s": round(time.time() - self.t0, 2),
              "violations": len(real), "repo_hash": build.repo_hash(), "notes": self.notes}
        os.makedirs(EVID, exist_ok=True)
        with open(os.path.join(EVID, self.pid + ".json"), "w") as f:
            json.dump(ev, f, indent=1, default=str)
        verdict = "VIOLATED" if rc else ("HELD-ON-OBSERVED" if not self.inconclusive else "HELD-ON-OBSERVED (with inconclusive cases)")
        print("%s %s tier=%s seed=%s evaluations=%d nontrivial=%d wall=%.1fs" %
              (self.pid, verdict, self.tier, self.seed, evaluations, distinct_nontrivial, time.time() - self.t0))
        return rc
