"""Property checks built on profile runs of the pipeline (C01 C02 C04 C05 C06 C07 C08 C09 C10 C13 C14 C19)."""
import base64
import hashlib
import json
import os
import pickle

import build
import pipeline
from evidence import Outcome

RULES = {
    "C01": "random well-formed grammars (profile core/errors/fields; no memo/leftrec) x grammar-directed inputs (sentences, prefixes, mutations, random); every parse compared with the reference PEG model in acceptance, bytes consumed, and per (rule, entry offset) outcome of every traced invocation; termination via logical step budget. Non-trivial: >=2 rule invocations and (accepted, or rejected after consuming >=1 byte, or an abandoned alternative / closure stop / lookahead at end of input fired); distinct = distinct (grammar unit, rule, input).",
    "C02": "accepted parses whose Debug tree is compared (fields by name) with the model's value built from the matches on the successful path. Non-trivial: the tree holds >=2 field values; distinct (unit, rule, input).",
    "C04": "parses of the unicode profile under the char-boundary assertion hook (H1) with catch_unwind; every offset in trace events, positions, error positions checked to be a char boundary inside the input; strings checked to be substrings. Non-trivial: input contains a multi-byte character and the parse progressed; distinct (unit, rule, input).",
    "C05": "tuples of executions of the same grammar compiled with different @memoize subsets (none/all/2 random) on the same inputs, plus each execution vs the model. Non-trivial: not all rejected at offset 0.",
    "C06": "(memoized rule, entry offset) pairs observed in recorded traces; per parse each pair may contain at most one body evaluation (memo probes / child invocations). Non-trivial: the pair was entered >=2 times within one parse.",
    "C07": "parses of grammars with @leftrec clusters (direct, indirect through plain rules, nested, nullable prefix, self-lookahead) compared with the model's literal seed-and-grow; termination via step budget. Non-trivial: >=1 growth iteration extended the seed or the input was rejected after progress.",
    "C08": "parses of grammars mixing skipping/@no_skip_ws rules, includes and user Whitespace rules, inputs with the five whitespace characters and near misses injected at every gap of generated sentences; compared with the model's literal reading of the skipping rule. Non-trivial: C01-non-trivial and whitespace was actually skipped.",
    "C09": "accepted parses with @position nodes: every recorded range compared with the model's (entry offset after caller's skip, end offset) and PegPosition::position() of the root. Non-trivial: >=2 positioned nodes in the tree.",
    "C10": "rejected parses: reported position must be a real failure offset of the reference evaluation (the furthest non-hidden one without memo/leftrec) and the detail must name an attempt that failed there. Non-trivial: >=2 distinct failure offsets in the model's attempt list.",
    "C13": "pairs (grammar with >Rule, grammar with the body written in place): identical public type section, and equal results (acceptance, tree incl. positions, error position) on the same inputs. Non-trivial: not both rejected at offset 0.",
    "C14": "parses of grammars with @check / @char @check / @extern rules (with and without user context): results vs model with mirrored functions; the set of (function, argument / offset) calls observed vs the reference evaluation; context threading. Non-trivial: >=1 user-function call whose decision is input dependent.",
    "C19": "every parse run three times (PegParser::parse, recording tracer through parse_advanced, IndentedTracer through parse_with_trace): equal results and user-function calls; recorded callbacks balanced (depth never negative, every entry exactly one exit); for a sample of cases the text IndentedTracer writes to stderr is captured and its indentation checked for proper nesting. Non-trivial: the parse progressed beyond offset 0.",
}

# (profile, opts) per tier and the finding kinds each property owns
COMMON_DEATH = {"crash", "fuel"}
MIX = ("mix", {"long_inputs": True, "unicode_heavy": True, "ws_inject": True, "huge_inputs": True}, 0.6)
SUITE = ("suite", {}, 1.0)  # the repository's own grammars (test suite + grammar.ebnf), read by the real front end
MIXT = ("mix", {"long_inputs": True, "unicode_heavy": True, "ws_inject": True, "huge_inputs": True}, 1.0)
CONF = {
    "C01": dict(kinds={"accept", "consumed", "fn", "rejected"} | COMMON_DEATH,
                quick=[("core", {"huge_inputs": True}, 0.8), ("unicode", {"unicode_heavy": True}, 0.4), ("ws", {"ws_inject": True}, 1.0), MIX, SUITE], thorough=[("core", {"huge_inputs": True}, 1.0), ("errors", {}, 0.5), ("fields", {}, 0.5), ("unicode", {"unicode_heavy": True}, 0.5), ("ws", {"ws_inject": True}, 1.0), MIXT, SUITE]),
    "C02": dict(kinds={"tree", "substring"},
                quick=[("fields", {}, 0.6), ("dupfields", {}, 1.2), ("strings", {"ws_inject": True}, 1.0), ("userfn", {}, 0.4), MIX, SUITE], thorough=[("fields", {}, 1.0), ("dupfields", {}, 1.0), ("strings", {"ws_inject": True}, 0.5), ("core", {}, 1.0), ("include", {}, 0.3), ("userfn", {}, 0.5), ("unicode", {"unicode_heavy": True}, 0.3), MIXT, SUITE]),
    "C04": dict(kinds={"panic", "crash", "boundary", "substring"},
                quick=[("unicode", {"unicode_heavy": True}, 1.0), MIX], thorough=[("unicode", {"unicode_heavy": True}, 1.0), ("userfn", {"unicode_heavy": True}, 0.3), MIXT]),
    "C05": dict(kinds={"accept", "consumed", "tree", "variant"} | COMMON_DEATH,
                quick=[("memo", {"memo_variants": True, "grammar_scale": 0.4, "long_inputs": True, "huge_inputs": True, "huge_every": 3, "ws_inject": True}, 1.0), ("userfn", {"memo_variants": True, "grammar_scale": 0.35}, 1.0), ("memofam", {"memo_variants": True}, 1.0)],
                thorough=[("memo", {"memo_variants": True, "grammar_scale": 0.4, "long_inputs": True, "huge_inputs": True, "huge_every": 3, "ws_inject": True}, 1.0), ("userfn", {"memo_variants": True, "grammar_scale": 0.15}, 1.0), ("memofam", {"memo_variants": True}, 1.0)]),
    "C06": dict(kinds={"memo_bound"},
                quick=[("memofail", {}, 1.0), ("leftrec", {}, 0.4), MIX], thorough=[("memofail", {}, 1.0), ("memo", {}, 0.5), ("leftrec", {}, 0.5), MIXT]),
    "C07": dict(kinds={"accept", "consumed", "tree", "position", "fn"} | COMMON_DEATH,
                quick=[("leftrec", {}, 1.0), MIX, SUITE], thorough=[("leftrec", {}, 1.0), ("position", {}, 0.3), MIXT, SUITE]),
    "C08": dict(kinds={"accept", "consumed", "tree", "fn", "position"},
                quick=[("ws", {"ws_inject": True}, 1.0), MIX, SUITE], thorough=[("ws", {"ws_inject": True}, 1.0), ("include", {"ws_inject": True}, 0.3), MIXT, SUITE]),
    "C09": dict(kinds={"position", "boundary", "stringpos"},
                quick=[("position", {"huge_inputs": True, "unicode_heavy": True}, 1.0), ("strings", {"ws_inject": True}, 0.5), MIX, SUITE], thorough=[("position", {"huge_inputs": True, "unicode_heavy": True}, 1.0), ("strings", {"ws_inject": True}, 0.5), ("ws", {"ws_inject": True}, 0.3), MIXT, SUITE]),
    "C10": dict(kinds={"errpos", "errpos_far", "errspec", "errspec_sentinel"},
                quick=[("errors", {}, 0.8), ("leftrec", {}, 0.3), MIX, SUITE], thorough=[("errors", {}, 1.0), ("core", {}, 1.0), ("leftrec", {}, 0.5), ("memo", {}, 0.3), MIXT, SUITE]),
    "C13": dict(kinds={"variant", "accept", "tree", "position"},
                quick=[("include", {"inline_variants": True, "grammar_scale": 0.6}, 1.0)],
                thorough=[("include", {"inline_variants": True, "grammar_scale": 0.6}, 1.0)]),
    "C14": dict(kinds={"userfn", "accept", "tree", "consumed"},
                quick=[("userfn", {}, 1.0), MIX], thorough=[("userfn", {}, 1.0), ("errors", {}, 0.5), MIXT]),
    "C19": dict(kinds={"trace_eq", "trace_balance", "crash", "fuel", "panic"},
                quick=[("trace", {"long_inputs": True, "capture_indented": True}, 1.0), MIX, SUITE], thorough=[("trace", {"long_inputs": True, "capture_indented": True}, 1.0), ("core", {"long_inputs": True}, 1.0), ("leftrec", {"capture_indented": True}, 1.0), ("userfn", {}, 1.0), ("unicode", {"long_inputs": True, "unicode_heavy": True}, 0.3), MIXT, SUITE]),
}


def build_unhex_safe(x):
    import build
    x = str(x)
    if len(x) > 8 and len(x) % 2 == 0 and all(ch in "0123456789abcdef" for ch in x):
        try:
            return build.unhex(x)
        except Exception:
            return x
    return x


def finding_signature(profile, f):
    gh = hashlib.sha256((f.get("grammar_text") or "").encode()).hexdigest()[:10]
    return "%s:%s:%s:%s:%s" % (f["kind"], profile, gh, f.get("rule", f.get("case")), json.dumps(f.get("input", ""))[:80])


def pipeline_check(pid, tier, seed, extra_hook=None):
    conf = CONF[pid]
    out = Outcome(pid, tier, seed)
    evaluations = 0
    nontrivial = 0
    agg = {}
    runs_meta = []
    for (profile, opts, scale) in conf[tier]:
        s = pipeline.run_profile(profile, seed, tier, opts=opts, scale=scale)
        runs_meta.append({"profile": profile, "opts": opts, "units": s["units"], "units_run": s["units_run"],
                          "cases": s["stats"]["cases"], "cached": bool(s.get("cached")), "timing": s.get("timing"),
                          "accepted": s["stats"]["accepted"], "rejected_after_progress": s["stats"]["rejected_progress"],
                          "rejected_at_0": s["stats"]["rejected_at0"]})
        for k, v in s["counters"].items():
            agg[k] = agg.get(k, 0) + v
        if opts.get("memo_variants") or opts.get("inline_variants"):
            evaluations += s["variant_stats"]["tuples"]
            nontrivial += s["variant_stats"]["nontrivial"]
        else:
            evaluations += s["stats"]["cases"]
            nontrivial += s["stats"]["nontrivial"].get(pid, 0)
        for f in s["findings"]:
            if f["kind"] in conf["kinds"]:
                out.violation(finding_signature(profile, f), "%s: %s (rule %s, input %r)" % (f["kind"], f["msg"], f["rule"], f["input"]),
                              {"profile": profile, "opts": opts, "grammar_text": f["grammar_text"], "rule": f["rule"],
                               "input": f["input"], "expected": f["expected"], "observed": f["observed"], "kind": f["kind"],
                               "uid": f["uid"], "run_key": s["key"]})
        if "variant" in conf["kinds"]:
            for f in s["variant_findings"]:
                out.violation(finding_signature(profile, f), "variant: %s (case %s): %s vs %s" % (f["msg"], f["case"], f["expected"], f["observed"]),
                              {"profile": profile, "opts": opts, "grammar_text": f["grammar_text"], "grammar_text_ref": f["grammar_text_ref"],
                               "case": f["case"], "expected": f["expected"], "observed": f["observed"], "kind": "variant", "run_key": s["key"]})
        if pid == "C19" and s.get("render_state_changed"):
            rs = s["render_state_changed"]
            out.violation("trace:process-state-changed:%s" % profile, "after a process ran traced parses the same PrettyParseError is rendered differently than before (tracing left process-wide state behind): %r vs %r" % (rs["before"][:80], rs["after"][:80]),
                          {"profile": profile, "opts": opts, "before": rs["before"], "after": rs["after"], "kind": "trace_state"})
        if pid == "C13":
            for f in s.get("type_section_findings", []):
                out.violation("types_differ:%s:%s" % (profile, hashlib.sha256(f["grammar_text"].encode()).hexdigest()[:10]), f["msg"],
                              {"profile": profile, "opts": opts, "grammar_text": f["grammar_text"], "expected": f["expected"], "observed": f["observed"], "kind": "types_differ"})
            agg["type_sections_compared"] = agg.get("type_sections_compared", 0) + s.get("type_sections_compared", 0)
        out.inconc("generator_error", s["n_generator_errors"])
        if "rejected" in conf["kinds"] and not (opts.get("derive_variants") or opts.get("inline_variants")):
            # a generated grammar is inside the documented syntax and restrictions: the compiler has to produce a parser
            for c in s["pgen_fail"]:
                cls = c.get("class") or []
                if cls[:1] == ["gen_err"] or cls[:1] == ["parse_err"]:
                    gt = c.get("grammar_text", "")
                    out.violation("rejected:%s:%s" % (profile, hashlib.sha256(gt.encode()).hexdigest()[:10]),
                                  "a well-formed grammar is rejected by the compiler (%s): no parser to recognise its language" % " ".join(
                                      build_unhex_safe(x) for x in cls[:4]),
                                  {"profile": profile, "opts": opts, "grammar_text": gt, "result": cls, "kind": "rejected"})
        else:
            out.inconc("grammar_rejected_by_compiler", s["n_pgen_fail"])
        out.inconc("unit_did_not_compile(see C03)", s["n_compile_fail"])
        out.inconc("watchdog_timeouts", s["timeouts"])
        for k, v in s["counters"].items():
            if k.startswith("model_drop") or k.startswith("harness") or k.startswith("inconclusive"):
                out.inconc(k, v)
        for smp in s["samples"][:2]:
            out.samples.append(smp)
        if extra_hook:
            extra_hook(out, s, profile, opts)
    out.coverage["runs"] = runs_meta
    out.coverage["observed"] = {k: v for k, v in sorted(agg.items()) if not k.startswith("model_drop")}
    if pid == "C19" and not agg.get("indented_traces_checked"):
        out.inconc("the log written by IndentedTracer was not observed (no sampled case)")
    floor = 20 if tier == "quick" else 100
    return out, evaluations, nontrivial, floor


def run_pipeline_property(pid, tier, seed):
    out, ev, nt, floor = pipeline_check(pid, tier, seed)
    return out.finish(ev, nt, RULES[pid], floor=floor)


# ------------------------------------------------------------------------------------------------ C03
import re


def compile_signature(msg):
    m = re.search(r"error(\[E\d+\])?: ([^\n]*)", msg or "")
    if not m:
        return "compile:unknown"
    text = m.group(2)
    text = re.sub(r"`Parsed_[A-Za-z0-9_#]+`", "`Parsed_<field>`", text)
    text = re.sub(r"`[A-Za-z0-9_#]+_impl`", "`<rule>_impl`", text)
    return "compile:%s:%s" % (m.group(1) or "", text[:100])


def check_C03(tier, seed):
    out = Outcome("C03", tier, seed)
    runs = [("types", {"assert_types": True, "derive_variants": True, "grammar_scale": 0.9}, 1.0),
            ("mix", {"assert_types": True, "grammar_scale": 0.4}, 1.0),
            ("keywords", {"assert_types": True, "grammar_scale": 0.3}, 1.0),
            ("userfn", {"assert_types": True, "grammar_scale": 0.15}, 1.0),
            ("leftrec", {"assert_types": True, "derive_variants": True, "grammar_scale": 0.12}, 1.0)]
    if tier == "thorough":
        runs += [("fields", {"assert_types": True, "grammar_scale": 0.3}, 1.0),
                 ("memo", {"assert_types": True, "grammar_scale": 0.2}, 1.0),
                 ("mix", {"assert_types": True, "derive_variants": True, "grammar_scale": 0.2}, 1.0)]
    evaluations = 0
    shapes = set()
    meta = []
    for (profile, opts, scale) in runs:
        s = pipeline.run_profile(profile, seed, tier, opts=opts, scale=scale)
        um = s.get("unit_meta") or []
        evaluations += len(um)
        for u in um:
            if u["ntriv"] and u["compiled"]:
                shapes.add((u["shape"], u["variant"]))
        for c in s["compile_fail"]:
            msg = (c.get("messages") or c.get("unattributed") or [""])[0]
            if c.get("uid") is None:
                out.violation(compile_signature(msg) + ":unattributed", "a batch of accepted grammars (with documented-type assertions) does not compile and the error could not be attributed to one grammar: %s" % msg[:300],
                              {"profile": profile, "opts": opts, "rustc": msg[:1500], "batch": c.get("batch")})
                continue
            out.violation(compile_signature(msg), "accepted grammar yields Rust code (or documented-type assertions) rustc rejects: %s" % msg[:300],
                          {"profile": profile, "opts": opts, "grammar_text": c.get("grammar_text"), "rustc": msg[:1500], "uid": c.get("uid")})
        out.inconc("generator_error", s["n_generator_errors"])
        out.inconc("grammar_rejected_by_compiler", s["n_pgen_fail"])
        meta.append({"profile": profile, "units": s["units"], "compiled": s["units_run"] + sum(1 for u in um if u["compiled"] and not u["runnable"]),
                     "rejected_by_compiler": s["n_pgen_fail"], "compile_failures": s["n_compile_fail"], "cached": bool(s.get("cached")),
                     "variants": sorted({u["variant"] for u in um})})
        for c in s["pgen_fail"][:3]:
            out.notes.append({"rejected_grammar": (c.get("grammar_text") or "")[:300], "class": c.get("class")})
        for smp in s["samples"][:2]:
            out.samples.append({"grammar_text": smp["grammar_text"], "note": "compiled with exact-type assertion module and #![forbid(unsafe_code)]"})
    out.coverage["runs"] = meta
    rule = ("grammars of the types/keywords profiles (deep nestings of sequence/choice/optional/closure/include around shared field names, "
            "multi-type fields, boxes, overrides, Rust keywords as rule and field names) x derive sets {default, +PartialEq/Eq, Debug only, empty}; "
            "each compiled by the real P-gen, then by rustc together with an assertion module generated from the documented mapping "
            "(exact field types, exhaustive destructuring and matches, PegPosition, PegParserAdvanced impls) under #![forbid(unsafe_code)]. "
            "Non-trivial: >=1 field of arity != One or an enum/box/alias; distinct = distinct (type-shape signature, derive variant).")
    return out.finish(evaluations, len(shapes), rule, floor=10 if tier == "quick" else 50)


# ------------------------------------------------------------------------------------------------ C06
def check_C06(tier, seed):
    import families
    out, ev, nt, floor = pipeline_check("C06", tier, seed)
    agg = out.coverage.get("observed", {})
    pairs = agg.get("memo_pairs", 0)
    reentered = agg.get("memo_pairs_reentered", 0)
    # ---- hand-built fully memoized families: per-pair bound (already in findings), aggregate bound, linear growth
    s = pipeline.run_profile("memofam", seed, tier, opts={}, scale=1.0)
    fam_agg = s["counters"]
    pairs += fam_agg.get("memo_pairs", 0)
    reentered += fam_agg.get("memo_pairs_reentered", 0)
    for f in s["findings"]:
        if f["kind"] in ("memo_bound", "crash", "fuel", "accept", "tree"):
            out.violation(finding_signature("memofam", f), "%s: %s (rule %s, input %r)" % (f["kind"], f["msg"], f["rule"], f["input"]),
                          {"profile": "memofam", "opts": {}, "grammar_text": f["grammar_text"], "rule": f["rule"], "input": f["input"],
                           "expected": f["expected"], "observed": f["observed"], "kind": f["kind"], "uid": f["uid"], "run_key": s["key"]})
    agg_checked = 0
    growth_checked = 0
    for u in s.get("case_facts", []):
        nmemo = u["nrules"] - 1  # every rule but the root is memoized in these families
        _, _, growth = families.fam(u["base"])
        byinput = {c["input"]: c for c in u["cases"]}
        for c in u["cases"]:
            evals = c["facts"].get("memo_body_evals")
            if evals is None or u["base"] % families.NFAM >= 7:
                continue  # family 7 (memoized wrappers) has a left-recursive and an unmemoized rule: per-pair bound only
            agg_checked += 1
            bound = nmemo * (c["len"] + 1)
            if evals > bound:
                out.violation("memo_aggregate:family%d" % (u["base"] % families.NFAM), "fully memoized grammar performed %d body evaluations on a %d-byte input (bound: %d rules x (len+1) = %d)" % (evals, c["len"], nmemo, bound),
                              {"grammar_text": u["text"], "rule": c["rule"], "input": c["input"], "observed": evals, "expected": "<= %d" % bound})
        # growth of the logical step count over the input family: at most linear (ratio against doubling)
        pts = [(n, byinput[i]["facts"].get("steps_impl")) for (i, n) in growth if i in byinput and byinput[i]["facts"].get("steps_impl")]
        for (n1, s1), (n2, s2) in zip(pts, pts[1:]):
            growth_checked += 1
            if s2 > (n2 / n1) * s1 * 1.6 + 200:
                out.violation("memo_growth:family%d" % (u["base"] % families.NFAM), "step count grows faster than linearly on failing inputs of a fully memoized grammar: n=%d -> %d steps, n=%d -> %d steps" % (n1, s1, n2, s2),
                              {"grammar_text": u["text"], "points": pts})
    out.coverage["families"] = {"grammars": len(s.get("case_facts", [])), "aggregate_bounds_checked": agg_checked, "growth_ratios_checked": growth_checked,
                                "cases": s["stats"]["cases"]}
    out.coverage["memo_pairs_observed"] = pairs
    for smp in s["samples"][:2]:
        out.samples.append(smp)
    rule = RULES["C06"] + " evaluations = (memoized rule, entry offset) pairs observed; plus 8 hand-built memoized families (nested brackets with 3-4 alternatives sharing a prefix, right-recursive expressions, lookahead-then-match, failing @check, lists, long inputs, memoized wrappers around cached rules) with failing inputs up to depth 24: aggregate bound rules x (len+1) and at-most-linear growth of the logical step count."
    return out.finish(pairs, reentered, rule, floor=floor)



# ------------------------------------------------------------------------------------------------ C13
def check_C13(tier, seed):
    """pipeline run (include vs body written in place) + the same pairs compiled by 8 threads of one process at the same
    time: the include is resolved through the referenced rule's definition while other threads resolve theirs, and both
    variants must still compile to what a single thread produces."""
    import random
    import subprocess
    import tempfile
    import shutil
    import ggen
    import grender
    out, ev, nt, floor = pipeline_check("C13", tier, seed)
    wd = tempfile.mkdtemp(prefix="vf13_", dir=build.WORK)
    try:
        ng = 16 if tier == "quick" else 80
        texts = {}
        jf = os.path.join(wd, "jobs_mt.tsv")
        with open(jf, "w") as f:
            for i in range(ng):
                try:
                    g = ggen.Gen(random.Random("c13mt/%s/%d" % (seed, i)), ggen.profile("include")).grammar()
                except Exception:
                    continue
                for tag, gv in pipeline.inline_variants(g):
                    gp = os.path.join(wd, "g%d%s.ebnf" % (i, tag))
                    text = grender.render(gv, None)
                    with open(gp, "w", encoding="utf-8") as fh:
                        fh.write(text)
                    texts["g%d%s" % (i, tag)] = text
                    f.write("\t".join(["g%d%s" % (i, tag), gp, "-", "-", "vfrt::Ctx" if g.user_ctx else "-"]) + "\n")
        cg = build.tool_cgdrv()

        def mt(nth):
            pr = subprocess.run([cg, "genmt", jf, str(nth)], stdout=subprocess.PIPE, stderr=subprocess.DEVNULL, env=build.BASE_ENV, timeout=900)
            res = {}
            lines = pr.stdout.decode("utf-8", "replace").splitlines()
            if pr.returncode != 0 or not lines or lines[-1] != "DONE":
                return None
            for l in lines:
                if l.startswith("MT "):
                    f_ = l.split(" ")
                    res.setdefault(f_[1], []).append((f_[4], f_[5], int(f_[2]), int(f_[3]), f_[6] if len(f_) > 6 else "-"))
            return res
        ref_mt = mt(1)
        con_mt = mt(8)
        compared = 0
        if ref_mt is None or con_mt is None:
            out.inconc("concurrent_compile_driver_failed")
        else:
            for gid, lst in con_mt.items():
                want = {(c, h) for (c, h, _, _, _) in ref_mt.get(gid, [])}
                if len(want) != 1:
                    out.inconc("single_thread_compile_not_deterministic(see C16)")
                    continue
                w = sorted(want)[0]
                for (c, h, t, rnd_, head) in lst:
                    compared += 1
                    if (c, h) != w:
                        out.violation("include:concurrent-compile-differs:%s" % ("inc" if gid.endswith("inc") else "inl"),
                                      "%s compiled on thread %d (round %d) while 7 other threads were compiling gave %s (%s...), a single thread gives %s" % (
                                          "the grammar with includes" if gid.endswith("inc") else "the grammar with the bodies written in place", t, rnd_, c,
                                          build_unhex_safe(head)[:100] if head != "-" else "", w[0]),
                                      {"grammar_text": texts.get(gid, ""), "thread": t, "round": rnd_, "class": c, "single_thread_class": w[0], "kind": "variant"})
                        break
        out.coverage["concurrent_compilations_compared"] = compared
        ev += compared
        nt += compared
    finally:
        shutil.rmtree(wd, ignore_errors=True)
    return out.finish(ev, nt, RULES["C13"] + " Plus: both variants of further include-profile grammars compiled by 8 threads of one process at the same time; every result must be what a single thread produces.", floor=floor)


# ------------------------------------------------------------------------------------------------ C14
def check_C14(tier, seed):
    """pipeline run + the build-script route: a user context type configured through Compile::user_context_type must reach
    the generated code whatever the order of the builder calls (compared with the library route)."""
    import random
    import subprocess
    import tempfile
    import shutil
    import c15
    import ggen
    import grender
    out, ev, nt, floor = pipeline_check("C14", tier, seed)
    wd = tempfile.mkdtemp(prefix="vf14_", dir=build.WORK)
    try:
        bs = c15.build_bscript()
        n = 8 if tier == "quick" else 40
        jobs = []
        meta = []
        k = 0
        i = 0
        while len(meta) < n and i < n * 20:
            i += 1
            g = ggen.Gen(random.Random("c14b/%s/%d" % (seed, i)), ggen.profile("userfn")).grammar()
            if not g.user_ctx:
                continue
            text = grender.render(g, None)
            gp = os.path.join(wd, "g%d.ebnf" % k)
            with open(gp, "w", encoding="utf-8") as f:
                f.write(text)
            jobs.append(("g%d" % k, gp, os.path.join(wd, "lib%d.rs" % k), "Debug,Clone,PartialEq", "vfrt::Ctx"))
            meta.append((k, text, gp))
            k += 1
        r = build.run_cgdrv("gen", jobs, wd)
        for (k, text, gp) in meta:
            if r["g%d" % k][0] != "ok":
                continue
            lib = open(os.path.join(wd, "lib%d.rs" % k), encoding="utf-8").read()
            for order in ("cdopf", "dcopf", "opfcd", "cpdfo"):
                dest = os.path.join(wd, "bs%d_%s.rs" % (k, order))
                p = subprocess.run([bs, "run", gp, dest, "-", "Debug,Clone,PartialEq", "0", "vfrt::Ctx", order], stdout=subprocess.PIPE, stderr=subprocess.PIPE, env=build.BASE_ENV, timeout=120)
                ev += 1
                nt += 1
                if p.stdout.decode().strip() != "OK":
                    out.violation("c14:buildscript-route-failed", "Compile (builder order %s) failed on a grammar the library route accepts: %s" % (order, p.stdout.decode()[:200]), {"grammar_text": text, "order": order})
                    continue
                content = open(dest, encoding="utf-8").read()
                lines = content.split("\n")
                j = 0
                while j < len(lines) and (lines[j].startswith("//") or lines[j] == ""):
                    j += 1
                code = "\n".join(lines[j:])
                if code != lib:
                    has_ctx = "vfrt :: Ctx" in code
                    out.violation("c14:user-context-not-delivered:%s" % ("missing" if not has_ctx else "differs"),
                                  "user context type configured with Compile::user_context_type %s the generated code when the builder calls come in order %s (c=user_context_type d=derives o=destination p=prefix f=format)" % ("does not reach" if not has_ctx else "changes", order),
                                  {"grammar_text": text, "order": order})
        out.coverage["buildscript_route_context_checks"] = len(meta) * 4
    finally:
        shutil.rmtree(wd, ignore_errors=True)
    return out.finish(ev, nt, RULES["C14"] + " Plus: user-context grammars through Compile::user_context_type with 4 builder-call orders, generated code compared with the library route.", floor=floor)
