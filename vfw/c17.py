"""C17: the bootstrapped grammar parser is a fixpoint of the generator (two-stage rebuild monitor)."""
import glob
import os
import random
import shutil
import subprocess
import tempfile

import build
import c15
import ggen
import grender
from evidence import Outcome


def check_C17(tier, seed):
    out = Outcome("C17", tier, seed)
    cg1 = build.tool_cgdrv()
    scratch = tempfile.mkdtemp(prefix="vf17_", dir="/tmp")
    try:
        gram = os.path.join(build.REPO, "grammar.ebnf")
        gen2p = os.path.join(scratch, "gen2.rs")
        r = build.run_cgdrv("gen", [("s1", gram, gen2p, "-", "-")], scratch, nproc=1)
        if r["s1"][0] != "ok":
            out.violation("c17:stage1-rejects-grammar.ebnf", "the tree's generator does not compile grammar.ebnf: %s" % (r["s1"],), {"result": list(r["s1"])})
            return out.finish(1, 0, "stage 1 failed", floor=0)
        gen2 = open(gen2p, encoding="utf-8").read()
        # shipped front end == what the generator produces.  bootstrap.sh pipes the generator's output through
        # rustfmt, so both sides are put through the local rustfmt first (formatting is not part of the claim;
        # a purely token-wise comparison was a false alarm: rustfmt drops trailing commas) and comment lines dropped.
        shipped = os.path.join(build.REPO, "codegen", "src", "grammar", "generated.rs")
        evaluations = 1

        def fmt(src_path, name):
            dst = os.path.join(scratch, name)
            shutil.copy(src_path, dst)
            pr = subprocess.run(["rustfmt", "--edition", "2021", dst], stdout=subprocess.PIPE, stderr=subprocess.STDOUT, env=build.BASE_ENV, timeout=300)
            if pr.returncode != 0:
                return None
            return "\n".join(l for l in open(dst, encoding="utf-8").read().splitlines() if not l.startswith("//") and l.strip())
        a = fmt(shipped, "shipped_fmt.rs")
        b = fmt(gen2p, "gen2_fmt.rs")
        if a is None or b is None:
            out.inconc("rustfmt_unavailable_or_failed")
        elif a != b:
            la, lb = a.splitlines(), b.splitlines()
            i = next((k for k in range(min(len(la), len(lb))) if la[k] != lb[k]), min(len(la), len(lb)))
            out.violation("c17:shipped-differs-from-regenerated", "codegen/src/grammar/generated.rs is not what the tree's generator produces from grammar.ebnf (first differing line %d: shipped %r / regenerated %r)" % (i, la[i:i + 1], lb[i:i + 1]),
                          {"shipped_near": la[max(0, i - 5):i + 5], "regenerated_near": lb[max(0, i - 5):i + 5]})
        # ---- the route bootstrap.sh really takes: the command-line tool.  Its output must be the library's code, and the header
        # must identify the grammar it was generated from (CRC-32 of grammar.ebnf), as the shipped file's header does
        try:
            import zlib
            import re as _re
            import c15
            cli = c15.build_cli()
            pr = subprocess.run([cli, gram], stdout=subprocess.PIPE, stderr=subprocess.PIPE, env=build.BASE_ENV, timeout=300)
            evaluations += 1
            if pr.returncode != 0:
                out.violation("c17:cli-rejects-grammar.ebnf", "peginator-cli does not compile grammar.ebnf (exit %s): %s" % (pr.returncode, pr.stderr.decode("utf-8", "replace")[-300:]), {})
            else:
                cli_out = pr.stdout.decode("utf-8")
                want_crc = "%08x" % (zlib.crc32(open(gram, "rb").read()) & 0xFFFFFFFF)
                m = _re.search(r"^// CRC-32/ISO-HDLC of the grammar file: ([0-9a-f]{8})$", cli_out, _re.M)
                ms = _re.search(r"^// CRC-32/ISO-HDLC of the grammar file: ([0-9a-f]{8})$", open(shipped, encoding="utf-8").read(), _re.M)
                if not m or m.group(1) != want_crc:
                    out.violation("c17:cli-header-crc", "the header written by peginator-cli for grammar.ebnf records CRC %s, the CRC-32 of grammar.ebnf is %s" % (m.group(1) if m else None, want_crc), {"header": cli_out[:300]})
                if not ms or ms.group(1) != want_crc:
                    out.violation("c17:shipped-header-crc", "the header of the shipped generated.rs records CRC %s, the CRC-32 of grammar.ebnf is %s (the shipped parser was not generated from this grammar.ebnf)" % (ms.group(1) if ms else None, want_crc), {})
                clip = os.path.join(scratch, "cli_out.rs")
                with open(clip, "w", encoding="utf-8") as f:
                    f.write(cli_out)
                c = fmt(clip, "cli_fmt.rs")
                if c is not None and b is not None and c != b:
                    out.violation("c17:cli-differs-from-library", "peginator-cli (the route bootstrap.sh takes) and the library produce different code for grammar.ebnf", {})
        except subprocess.TimeoutExpired:
            out.inconc("cli_watchdog_timeout")
        # ---- stage 2: a generator built around gen2
        for d in ("runtime", "codegen"):
            shutil.copytree(os.path.join(build.REPO, d), os.path.join(scratch, d), ignore=shutil.ignore_patterns("target"))
        shutil.copy(os.path.join(build.REPO, "Cargo.lock"), os.path.join(scratch, "Cargo.lock"))
        with open(os.path.join(scratch, "codegen", "src", "grammar", "generated.rs"), "w", encoding="utf-8") as f:
            f.write(gen2)
        shutil.copytree(os.path.join(build.RUST_SRC, "cgdrv"), os.path.join(scratch, "cgdrv"), ignore=shutil.ignore_patterns("target", "Cargo.lock"))
        ct = os.path.join(scratch, "cgdrv", "Cargo.toml")
        s = open(ct).read().replace('"/repo/codegen"', '"%s/codegen"' % scratch).replace('"/repo/runtime"', '"%s/runtime"' % scratch)
        open(ct, "w").write(s)
        p = build.cargo_build(os.path.join(scratch, "cgdrv"), os.path.join(scratch, "target"))
        if p.returncode != 0:
            out.violation("c17:stage2-does-not-build", "a generator built around the regenerated front end does not compile: %s" % p.stdout[-1500:], {"cargo": p.stdout[-3000:]})
            return out.finish(evaluations, 0, "stage 2 failed to build", floor=0)
        cg2 = os.path.join(scratch, "target", "debug", "cgdrv")
        gen3p = os.path.join(scratch, "gen3.rs")
        r = build.run_cgdrv("gen", [("s2", gram, gen3p, "-", "-")], scratch, cgdrv=cg2, nproc=1)
        evaluations += 1
        if r["s2"][0] != "ok":
            out.violation("c17:stage2-rejects-grammar.ebnf", "stage 2 generator does not compile grammar.ebnf: %s" % (r["s2"],), {"result": list(r["s2"])})
        else:
            gen3 = open(gen3p, encoding="utf-8").read()
            if gen3 != gen2:
                out.violation("c17:not-a-fixpoint", "stage 3 code differs from stage 2 code (%d vs %d bytes)" % (len(gen3), len(gen2)), {"len2": len(gen2), "len3": len(gen3)})
        # ---- both front ends on the same corpus
        rnd = random.Random("c17/%s" % seed)
        corpus = []
        seeds = []
        for pth in sorted(glob.glob(os.path.join(build.REPO, "test", "src", "*", "grammar.*ebnf")) + [gram]):
            seeds.append(open(pth, encoding="utf-8").read())
        n = 30 if tier == "quick" else 300
        for prof in ("core", "types", "unicode", "userfn", "ws", "leftrec"):
            for i, g in enumerate(ggen.generate("c17/%s" % seed, prof, max(2, n // 6))):
                seeds.append(grender.render(g, random.Random("c17l/%s/%s/%d" % (seed, prof, i)) if i % 2 else None))
        corpus += seeds
        nmut = 1500 if tier == "quick" else 20000
        per = max(1, nmut // len(seeds))
        for t in seeds:
            corpus += c15.mutants(t, rnd, per)
        corpus += c15.HOSTILE + [t for _, t in c15.RESTRICTIONS] + [t for _, t in c15.deep_nesting([10, 100])]
        jobs = []
        wd = os.path.join(scratch, "corpus")
        os.makedirs(wd)
        for i, t in enumerate(corpus):
            gp = os.path.join(wd, "c%d.ebnf" % i)
            with open(gp, "w", encoding="utf-8") as f:
                f.write(t)
            jobs.append(("c%d" % i, gp, os.path.join(wd, "c%d.a1" % i)))
        r1 = build.run_cgdrv("ast", jobs, wd)
        jobs2 = [(j[0], j[1], j[2][:-1] + "2") for j in jobs]
        r2 = build.run_cgdrv("ast", jobs2, wd, cgdrv=cg2)
        nontriv = 0
        suite = set(seeds[:len(glob.glob(os.path.join(build.REPO, "test", "src", "*", "grammar.*ebnf"))) + 1])
        classes = {}
        for i, t in enumerate(corpus):
            a, b = r1.get("c%d" % i), r2.get("c%d" % i)
            evaluations += 1
            if t not in suite:
                nontriv += 1
            if a is None or b is None:
                out.inconc("missing_result")
                continue
            classes[a[0]] = classes.get(a[0], 0) + 1
            same = a[0] == b[0]
            if same and a[0] == "ok":
                same = open(os.path.join(wd, "c%d.a1" % i), encoding="utf-8").read() == open(os.path.join(wd, "c%d.a2" % i), encoding="utf-8").read()
            elif same and a[0] == "parse_err":
                same = a[2:] == b[2:]
            elif same and a[0] in ("abort", "timeout"):
                same = True
            if not same:
                out.violation("c17:frontends-disagree:%d" % i, "shipped and regenerated front end read a text differently: %s vs %s" % (a[:1] + a[2:], b[:1] + b[2:]),
                              {"grammar_text": t[:3000], "shipped": list(a), "regenerated": list(b)})
        out.coverage["corpus_outcomes"] = classes
        out.samples = [{"grammar_text": corpus[i][:300]} for i in (0, len(seeds) + 3, len(corpus) - 1)]
    finally:
        shutil.rmtree(scratch, ignore_errors=True)
    rule = ("the command-line route bootstrap.sh takes (header CRC = CRC-32 of grammar.ebnf, also in the shipped file; code = library code); stage 1 = the tree's generator; gen2 = stage1(grammar.ebnf); shipped generated.rs compared token-wise with gen2; stage 2 = generator rebuilt around gen2 (scratch copy, deleted afterwards); gen3 = stage2(grammar.ebnf) must equal gen2 byte for byte; "
            "then both front ends read the same corpus (suite grammars, generator output, token/byte mutants, hostile texts) and must return the same Debug(Grammar) or the same ParseError. Non-trivial: text is not a suite grammar verbatim.")
    return out.finish(evaluations, nontriv, rule, floor=100)
