"""C12: grammar text is read into the structure its syntax denotes (metamorphic rendering monitor)."""
import hashlib
import os
import random

import build
import ggen
import grender
import rdebug
from gast import *
from evidence import Outcome

SIMPLE = {"\\n": "SimpleEscapeNewline", "\\r": "SimpleEscapeCarriageReturn", "\\t": "SimpleEscapeTab",
          "\\\\": "SimpleEscapeBackslash", "\\'": "SimpleEscapeQuote", '\\"': "SimpleEscapeDQuote"}


def S(_n, **fields):
    return ("struct", _n, dict(fields))


def V(variant, inner):
    return ("call", variant, [inner])


def U(name):
    return ("ident", name)


def some(x):
    return ("call", "Some", [x])


NONE = ("ident", "None")


def string_item(c, sp):
    if not sp.startswith("\\"):
        return V("char", ("char", c))
    if sp in SIMPLE:
        return V("SimpleEscape", V(SIMPLE[sp], U(SIMPLE[sp])))
    if sp[1] == "x":
        return V("HexaEscape", S("HexaEscape", c1=("char", sp[2]), c2=("char", sp[3])))
    if sp[1] == "U":
        d = sp[4:]
    elif sp[2] == "{":
        d = sp[3:-1]
    else:
        d = sp[2:]
    cs = [("char", x) for x in d] + [None] * (6 - len(d))
    return V("Utf8Escape", S("Utf8Escape", c1=cs[0], **{"c%d" % (i + 1): (some(cs[i]) if cs[i] else NONE) for i in range(1, 6)}))


class Expect:
    def __init__(self, spell):
        self.q = list(spell)
        self.i = 0

    def item(self, c):
        cc, sp = self.q[self.i]
        assert cc == c, (cc, c)
        self.i += 1
        return string_item(c, sp)

    def path(self, parts):
        return ("list", [("str", p) for p in parts])

    def check(self, path):
        return S("CheckDirective", function=self.path(path))

    def expr(self, e):
        if isinstance(e, Lit):
            return V("StringLiteral", S("StringLiteral", insensitive=some(U("CaseInsensitiveMarker")) if e.insens else NONE,
                                        body=("list", [self.item(c) for c in e.s])))
        if isinstance(e, Rng):
            a = self.item(e.a)
            b = self.item(e.b)
            return V("CharacterRange", S("CharacterRange", **{"from": a, "to": b}))
        if isinstance(e, Eoi):
            return V("EndOfInput", U("EndOfInput"))
        if isinstance(e, Ref):
            if e.field is None:
                name = NONE
            elif e.field == "@":
                name = some(V("OverrideMarker", U("OverrideMarker")))
            else:
                name = some(V("Identifier", ("str", e.field)))
            return V("Field", S("Field", name=name, boxed=some(U("BoxMarker")) if e.boxed else NONE, typ=("str", e.rule)))
        if isinstance(e, Inc):
            return V("IncludeRule", S("IncludeRule", rule=("str", e.rule)))
        if isinstance(e, Grp):
            return V("Group", S("Group", body=self.cho(e.body)))
        if isinstance(e, Opt):
            return V("Optional", S("Optional", body=self.cho(e.body)))
        if isinstance(e, Clo):
            return V("Closure", S("Closure", body=self.cho(e.body), at_least_one=some(U("AtLeastOneMarker")) if e.plus else NONE))
        if isinstance(e, Neg):
            return V("NegativeLookahead", S("NegativeLookahead", expr=self.expr(e.expr)))
        if isinstance(e, Pos):
            return V("PositiveLookahead", S("PositiveLookahead", expr=self.expr(e.expr)))
        raise TypeError(e)

    def cho(self, c):
        return S("Choice", choices=("list", [S("Sequence", parts=("list", [self.expr(p) for p in a.parts])) for a in c.alts]))

    def grammar(self, g):
        rules = []
        dn = {"string": "StringDirective", "no_skip_ws": "NoSkipWsDirective", "export": "ExportDirective",
              "position": "PositionDirective", "memoize": "MemoizeDirective", "leftrec": "LeftrecDirective"}
        for r in g.rules:
            if r.kind == "rule":
                ds = []
                for d in r.directives:
                    if isinstance(d, tuple):
                        ds.append(V("CheckDirective", self.check(d[1])))
                    else:
                        ds.append(V(dn[d], U(dn[d])))
                rules.append(V("Rule", S("Rule", directives=("list", ds), name=("str", r.name), definition=self.cho(r.body))))
            elif r.kind == "char":
                ds = [self.check(c) for c in r.checks_before + r.checks_after]
                parts = []
                for p in r.parts:
                    if p[0] == "lit":
                        parts.append(V("CharRangePart", self.item(p[1])))
                    elif p[0] == "rng":
                        a = self.item(p[1])
                        b = self.item(p[2])
                        parts.append(V("CharacterRange", S("CharacterRange", **{"from": a, "to": b})))
                    else:
                        parts.append(V("Identifier", ("str", p[1])))
                rules.append(V("CharRule", S("CharRule", directives=("list", ds), name=("str", r.name), choices=("list", parts))))
            else:
                rules.append(V("ExternRule", S("ExternRule", directive=S("ExternDirective", function=self.path(r.func),
                                                                         return_type=some(self.path(r.ret)) if r.ret is not None else NONE),
                                               name=("str", r.name))))
        assert self.i == len(self.q)
        return S("Grammar", rules=("list", rules))


def first_diff(a, b, path="$"):
    if a == b:
        return None
    if a[0] != b[0]:
        return "%s: %s vs %s" % (path, rdebug.show(a, 120), rdebug.show(b, 120))
    if a[0] == "struct":
        if a[1] != b[1]:
            return "%s: struct %s vs %s" % (path, a[1], b[1])
        for k in sorted(set(a[2]) | set(b[2])):
            if k not in a[2] or k not in b[2]:
                return "%s.%s missing on one side" % (path, k)
            d = first_diff(a[2][k], b[2][k], path + "." + k)
            if d:
                return d
    if a[0] == "call":
        if a[1] != b[1] or len(a[2]) != len(b[2]):
            return "%s: %s(..) vs %s(..)" % (path, a[1], b[1])
        for i, (x, y) in enumerate(zip(a[2], b[2])):
            d = first_diff(x, y, path + "." + a[1])
            if d:
                return d
    if a[0] == "list":
        if len(a[1]) != len(b[1]):
            return "%s: list length %d vs %d" % (path, len(a[1]), len(b[1]))
        for i, (x, y) in enumerate(zip(a[1], b[1])):
            d = first_diff(x, y, "%s[%d]" % (path, i))
            if d:
                return d
    return "%s: %s vs %s" % (path, rdebug.show(a, 120), rdebug.show(b, 120))


def check_C12(tier, seed):
    out = Outcome("C12", tier, seed)
    wd = os.path.join(build.WORK, "c12")
    import shutil
    shutil.rmtree(wd, ignore_errors=True)
    os.makedirs(wd)
    ngr = 60 if tier == "quick" else 500
    nrend = 8 if tier == "quick" else 20
    profs = ["core", "types", "unicode", "userfn", "ws", "leftrec", "include", "keywords"]
    jobs_ast, jobs_gen = [], []
    meta = {}
    k = 0
    for gi in range(ngr):
        prof = profs[gi % len(profs)]
        g = ggen.Gen(random.Random("c12/%s/%d" % (seed, gi)), ggen.profile(prof)).grammar()
        for ri in range(nrend):
            rnd = None if ri == 0 else random.Random("c12/%s/%d/%d" % (seed, gi, ri))
            # ri 1..3: layout only (spelling canonical) ; ri >= 4: layout + spelling
            grender.SPELL_LOG = []
            if ri == 0:
                text = grender.render(g, None)
                spell_class = "canon"
            elif ri <= 3:
                text = render_layout_only(g, rnd)
                spell_class = "canon"
            else:
                text = grender.render(g, rnd, level=2)
                spell_class = "r%d" % ri
            spell = grender.SPELL_LOG
            grender.SPELL_LOG = None
            exp = Expect(spell).grammar(g)
            gp = os.path.join(wd, "g%d_%d.ebnf" % (gi, ri))
            with open(gp, "w", encoding="utf-8") as f:
                f.write(text)
            jid = "j%d_%d" % (gi, ri)
            jobs_ast.append((jid, gp, os.path.join(wd, "g%d_%d.ast" % (gi, ri))))
            jobs_gen.append((jid, gp, os.path.join(wd, "g%d_%d.rs" % (gi, ri)), "-", "vfrt::Ctx" if g.user_ctx else "-"))
            meta[jid] = (gi, ri, text, exp, spell_class, sum(1 for c, sp in spell if sp != c))
            k += 1
    # directive order is free ("directives in any order"): permuting the directives of a rule (keeping the relative
    # order of its @check functions, which are called in written order) must not change the generated code
    perm_jobs = []
    perm_meta = {}
    import copy
    for gi in range(ngr):
        prof = profs[gi % len(profs)]
        g = ggen.Gen(random.Random("c12/%s/%d" % (seed, gi)), ggen.profile(prof)).grammar()
        if not any(r.kind == "rule" and len(r.directives) >= 2 for r in g.rules):
            continue
        for pi in range(3):
            prnd = random.Random("c12p/%s/%d/%d" % (seed, gi, pi))
            g2 = copy.deepcopy(g)
            changed = False
            for r in g2.rules:
                if r.kind != "rule" or len(r.directives) < 2:
                    continue
                checks_ = [d for d in r.directives if isinstance(d, tuple)]
                others = [d for d in r.directives if not isinstance(d, tuple)]
                prnd.shuffle(others)
                slots = sorted(prnd.sample(range(len(r.directives)), len(checks_)))
                new = []
                ci = oi = 0
                for k_ in range(len(r.directives)):
                    if ci < len(slots) and k_ == slots[ci]:
                        new.append(checks_[ci])
                        ci += 1
                    else:
                        new.append(others[oi])
                        oi += 1
                if pi == 0 and checks_:
                    new = checks_ + others  # all checks first: everything else is written after a @check
                if pi == 1 and checks_:
                    new = others + checks_
                if new != r.directives:
                    changed = True
                r.directives = new
            if not changed:
                continue
            text = grender.render(g2, None)
            gp = os.path.join(wd, "p%d_%d.ebnf" % (gi, pi))
            with open(gp, "w", encoding="utf-8") as f:
                f.write(text)
            jid = "p%d_%d" % (gi, pi)
            perm_jobs.append((jid, gp, os.path.join(wd, "p%d_%d.rs" % (gi, pi)), "-", "vfrt::Ctx" if g.user_ctx else "-"))
            perm_meta[jid] = (gi, text)
    rp = build.run_cgdrv("gen", perm_jobs, wd) if perm_jobs else {}
    ra = build.run_cgdrv("ast", jobs_ast, wd)
    rg = build.run_cgdrv("gen", jobs_gen, wd)
    nontriv = 0
    evaluations = 0
    by_g = {}
    escapes_seen = {}
    for jid, (gi, ri, text, exp, sc, nesc) in meta.items():
        evaluations += 1
        r = ra.get(jid)
        witness = {"grammar_text": text, "rendering": ri}
        if r is None or r[0] != "ok":
            out.violation("c12:rejected:%s" % (r[0] if r else "missing"), "a rendering of a documented-syntax grammar was not read: %s" %
                          (build.unhex(r[-1]) if r and len(r) > 2 else r), dict(witness, result=list(r) if r else None))
            continue
        with open(os.path.join(wd, "g%d_%d.ast" % (gi, ri)), encoding="utf-8") as f:
            got = rdebug.parse(f.read())
        if ri > 0 and (text.count("\n") + text.count("#") + nesc) >= 3:
            nontriv += 1
        if got != exp:
            out.violation("c12:ast:%s" % hashlib.sha256(text.encode()).hexdigest()[:10], "grammar text read into a different structure: " + (first_diff(exp, got) or "?"),
                          dict(witness, difference=first_diff(exp, got)))
            continue
        code = None
        if rg.get(jid) and rg[jid][0] == "ok":
            with open(os.path.join(wd, "g%d_%d.rs" % (gi, ri)), encoding="utf-8") as f:
                code = f.read()
        by_g.setdefault(gi, []).append((ri, text, code, rg.get(jid)))
    # same denotation => byte-identical generated code, whatever the layout / spelling
    for gi, lst in by_g.items():
        ref = lst[0]
        if ref[2] is None:
            # the grammar is inside the documented syntax and restrictions (the generator's well-formedness rules are the
            # documented ones), its text was read into the right structure - and then the compiler turns it down
            msg = ref[3]
            out.violation("c12:gen-rejected:%s" % hashlib.sha256(ref[1].encode()).hexdigest()[:10],
                          "a grammar that follows the syntax reference is read correctly but rejected by the compiler: %s" % (
                              [build.unhex(x) if isinstance(x, str) and len(x) > 8 and all(ch in "0123456789abcdef" for ch in x) else x for x in (msg or [])][:4]),
                          {"grammar_text": ref[1], "result": list(msg) if msg else None})
        for (ri, text, code, r) in lst[1:]:
            if (code is None) != (ref[2] is None):
                out.violation("c12:gen-outcome:%d" % gi, "equal grammars in different spelling: one compiles, the other is rejected (%s vs %s)" % (ref[3], r),
                              {"grammar_text": text, "grammar_text_ref": ref[1]})
            elif code is not None and code != ref[2]:
                out.violation("c12:gen-differs:%d:%d" % (gi, ri), "equal grammars in different layout/spelling generate different code",
                              {"grammar_text": text, "grammar_text_ref": ref[1]})
    nperm = 0
    for jid, (gi, text) in perm_meta.items():
        ref = by_g.get(gi)
        if not ref:
            continue
        evaluations += 1
        nontriv += 1
        nperm += 1
        r = rp.get(jid)
        code = None
        if r and r[0] == "ok":
            with open(os.path.join(wd, jid + ".rs"), encoding="utf-8") as f:
                code = f.read()
        if code != ref[0][2]:
            out.violation("c12:directive-order:%d" % gi, "the same rule directives written in another order give %s" % ("different code" if code is not None and ref[0][2] is not None else "a different outcome (%s vs %s)" % (r[:1] if r else None, ref[0][3][:1] if ref[0][3] else None)),
                          {"grammar_text": text, "grammar_text_ref": ref[0][1]})
    out.coverage["directive_permutations"] = nperm
    # ---- raw line breaks inside literals, through the file-reading routes: a grammar file with CR LF line endings whose
    # literals hold a raw CR LF / CR / LF denotes the same grammar as the one spelling them \r\n - whether the text is
    # handed to the library or read from the file by the build-script helper (Compile::file)
    import subprocess
    import c15
    import c16
    bs = c15.build_bscript()
    nraw = 10 if tier == "quick" else 60
    raw_jobs = []
    raw_meta = []
    for gi in range(nraw):
        prof = profs[gi % len(profs)]
        g = ggen.Gen(random.Random("c12/%s/%d" % (seed, gi)), ggen.profile(prof)).grammar()
        base = grender.render(g, None)
        rr = random.Random("c12raw/%s/%d" % (seed, gi))
        pieces = [rr.choice(["\r\n", "\r", "\n", "\r\n\r\n", "\n\r", "a\r\nb", "\r\nz", "q\r\n"]) for _ in range(3)]
        esc = lambda x: x.replace("\r", "\\r").replace("\n", "\\n")
        raw_text = base.replace("\n", "\r\n") + "RawBreaks12 = '%s' \"%s\" i'%s' ['\r'..'\r'];\r\n" % tuple(pieces)
        esc_text = base + "RawBreaks12 = '%s' \"%s\" i'%s' ['\\r'..'\\r'];\n" % tuple(esc(x) for x in pieces)
        gr = os.path.join(wd, "raw%d.ebnf" % gi)
        ge = os.path.join(wd, "esc%d.ebnf" % gi)
        with open(gr, "w", encoding="utf-8", newline="") as f:
            f.write(raw_text)
        with open(ge, "w", encoding="utf-8", newline="") as f:
            f.write(esc_text)
        ctx = "vfrt::Ctx" if g.user_ctx else "-"
        raw_jobs.append(("raw%d" % gi, gr, os.path.join(wd, "raw%d.rs" % gi), "-", ctx))
        raw_jobs.append(("esc%d" % gi, ge, os.path.join(wd, "esc%d.rs" % gi), "-", ctx))
        raw_meta.append((gi, raw_text, esc_text, ctx))
    rr_ = build.run_cgdrv("gen", raw_jobs, wd)
    nraw_done = 0
    for gi, raw_text, esc_text, ctx in raw_meta:
        def rd(pth):
            with open(pth, encoding="utf-8") as fh:
                return fh.read()
        codes = {}
        for tag in ("raw", "esc"):
            r = rr_.get("%s%d" % (tag, gi))
            codes["library, " + ("raw line breaks" if tag == "raw" else "escapes")] = rd(os.path.join(wd, "%s%d.rs" % (tag, gi))) if r and r[0] == "ok" else None
        dest = os.path.join(wd, "rawbs%d.rs" % gi)
        pr = subprocess.run([bs, "run", os.path.join(wd, "raw%d.ebnf" % gi), dest, "-", "-", "0", ctx], stdout=subprocess.PIPE, stderr=subprocess.PIPE, env=build.BASE_ENV, timeout=120)
        if pr.stdout.decode().strip() == "OK":
            body = c16.strip_header(rd(dest))
            codes["Compile::file, raw line breaks"] = body
            lib = codes["library, raw line breaks"]
            if lib is not None and body != lib and body.rstrip("\n") == lib.rstrip("\n"):
                codes["Compile::file, raw line breaks"] = lib
        else:
            codes["Compile::file, raw line breaks"] = None
        evaluations += 1
        nontriv += 1
        nraw_done += 1
        if len(set(codes.values())) != 1:
            groups = {}
            for k_, v_ in codes.items():
                groups.setdefault(v_, []).append(k_)
            out.violation("c12:raw-line-breaks:%s" % "/".join(sorted(k_.split(",")[0] for ks in list(groups.values())[1:] for k_ in ks)),
                          "raw CR / LF characters inside literals of a CR LF grammar file are not read as the characters they are: %s" % " | ".join(
                              "%s: %s" % (", ".join(ks), "rejected" if c is None else "%d bytes of code" % len(c)) for c, ks in groups.items()),
                          {"grammar_text": raw_text, "grammar_text_ref": esc_text})
    out.coverage["raw_line_break_grammars"] = nraw_done
    out.samples = [{"grammar_text": meta[j][2][:600], "rendering": meta[j][1]} for j in list(meta)[5:8]]
    out.coverage["grammars"] = ngr
    out.coverage["renderings_per_grammar"] = nrend
    shutil.rmtree(wd, ignore_errors=True)
    rule = ("random documented-syntax grammars (8 profiles) x renderings (canonical; random whitespace/comments at every permitted gap; both quote styles; every escape spelling per character): "
            "Debug(Grammar) from the real front end compared with the structure built from the generator's AST and the chosen spellings; generated code must be byte-identical across renderings of one grammar. "
            "Behaviour of differently spelled grammars is tied to the denotation by the C01 pipeline (half of its units use random renderings). "
            "Non-trivial: rendering differs from canonical in >=3 gaps/spellings; distinct renderings.")
    return out.finish(evaluations, nontriv, rule, floor=50)


def render_layout_only(g, rnd):
    """random gaps, canonical spelling and quotes"""
    outp = []
    for r in g.rules:
        toks = grender.rule_tokens(r, None)
        outp.append(grender.join_tokens(toks, rnd, 2))
    text = ""
    for o in outp:
        text += grender._gap(rnd, False, 2) + o
    return text + grender._gap(rnd, False, 2)
