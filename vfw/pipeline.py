"""Profile runs: generate grammars + inputs (A), compile them with the real P-gen and rustc and run
the real parsers (B), compare every execution with the oracles (C).  One run serves several
properties; its summary is cached under .work/runs/<key>/ keyed by repo + machinery content."""
import hashlib
import sys
sys.setrecursionlimit(20000)
import json
import os
import pickle
import random
import shutil
import time
from concurrent.futures import ProcessPoolExecutor, ThreadPoolExecutor

import build
import ggen
import grender
import inputs as inputs_mod
import rdebug
from gast import *
from model import Model, Drop

TIERS = {
    # profile run sizes: (grammars, inputs per exported rule)
    "quick": dict(grammars=96, n_inputs=36, n_sent=8, batch=8),
    "thorough": dict(grammars=1200, n_inputs=90, n_sent=16, batch=16),
}


def run_key(profile, seed, tier, extra=""):
    h = hashlib.sha256(("%s|%s|%s|%s|%s|%s" % (build.repo_hash(), build.machinery_hash(), profile, seed, tier, extra)).encode())
    return "%s-%s-s%s-%s" % (profile, tier, seed, h.hexdigest()[:12])


# ------------------------------------------------------------------------------------------------
# unit construction (phase A) - runs in worker processes

def make_units(profile, seed, tier, index, opts):
    """one base grammar -> list of units (variants). Each unit: dict(uid, base, variant, grammar, text, cases)"""
    g = ggen.generate("%s" % seed, profile, index + 1)[-1] if False else None
    rnd = random.Random("%s/%s/%d" % (seed, profile, index))
    fixed_inputs = None
    step_cap = None
    suite_text = None
    if profile == "memofam":
        import families
        g, fixed_inputs, _ = families.fam(index)
        check_wellformed(g)
    elif profile == "suite":
        g, suite_text, fixed_inputs, step_cap = suite_unit(index, seed, tier)
        check_wellformed(g)
    else:
        g = ggen.Gen(rnd, ggen.profile(profile)).grammar()
    huge = bool(opts.get("huge_inputs")) and fixed_inputs is None and index % int(opts.get("huge_every", 6)) == 0
    if huge:
        g = huge_wrap(g, random.Random("%s/%s/%d/huge" % (seed, profile, index)))
    variants = [("base", g)]
    if opts.get("memo_variants"):
        variants = memo_variants(g, rnd)
    if opts.get("inline_variants"):
        variants = inline_variants(g)
    if opts.get("derive_variants"):
        variants = derive_variants(g)
    lay = random.Random("%s/%s/%d/layout" % (seed, profile, index))
    units = []
    t = TIERS[tier]
    # inputs are shared by all variants of one base grammar
    irnd = random.Random("%s/%s/%d/inputs" % (seed, profile, index))
    cases_by_rule = {}
    for r in g.exported():
        if fixed_inputs is not None:
            cases_by_rule[r.name] = list(fixed_inputs.get(r.name, []))
            continue
        if profile == "suite":
            cases_by_rule[r.name] = inputs_mod.inputs_for(g, r.name, irnd, n_sent=t["n_sent"], n_total=t["n_inputs"], ws_inject=True,
                                                          unicode_heavy=True, long_inputs=True, maxbytes=64)
            continue
        cases_by_rule[r.name] = inputs_mod.inputs_for(
            g, r.name, irnd, n_sent=t["n_sent"], n_total=t["n_inputs"],
            ws_inject=opts.get("ws_inject", False), unicode_heavy=opts.get("unicode_heavy", False),
            long_inputs=opts.get("long_inputs", False),
            huge_inputs=huge and r.name == HUGE_RULE)
    for vi, (vname, vg) in enumerate(variants):
        text = grender.render(vg, lay if opts.get("random_layout", True) and lay.random() < 0.5 else None, level=2)
        if suite_text is not None:
            text = suite_text  # the repository's own file, byte for byte
        units.append({"base": index, "variant": vname, "grammar": vg, "text": text,
                      "inputs": cases_by_rule, "profile": profile, "step_cap": step_cap})
    return units


HUGE_RULE = "HugeWrap"


def huge_wrap(g, rnd):
    """append `@export HugeWrap = { hh:Start }` over a non-nullable exported rule: the rule that the very long inputs
    (several KB, beyond 64 KiB) are written for, so that they are consumed to the end instead of after one item"""
    import copy
    from gast import compute_nullable, Rule, Cho, Seq, Clo, Ref, Invalid
    try:
        nul = compute_nullable(g)
        cands = [r for r in g.exported() if not nul.get(r.name, True) and not r.has("leftrec")]
        if not cands or g.rule(HUGE_RULE) is not None:
            return g
        start = rnd.choice(cands)
        dirs = ["export"] + (["position"] if rnd.random() < 0.4 else []) + (["memoize"] if rnd.random() < 0.3 else [])
        g2 = copy.copy(g)
        g2.rules = list(g.rules) + [Rule(HUGE_RULE, Cho([Seq([Clo(Cho([Seq([Ref(start.name, field="hh")])]))])]), dirs)]
        check_wellformed(g2)
        check_types(g2)
        return g2
    except Invalid:
        return g


_suite_cache = {}


def suite_files():
    import glob
    return [f for f in sorted(glob.glob(os.path.join(build.REPO, "test", "src", "*", "grammar.*ebnf"))) +
            [os.path.join(build.REPO, "grammar.ebnf")]]


def suite_unit(index, seed, tier):
    """the repository's own grammars (those without crate-specific user functions), read by the real front end"""
    import gfromast
    import tempfile
    files = suite_files()
    f = files[index % len(files)]
    with open(f, encoding="utf-8") as fh:
        text = fh.read()
    wd = tempfile.mkdtemp(prefix="suite_", dir=build.WORK)
    try:
        r = build.run_cgdrv("ast", [("s", f, os.path.join(wd, "s.ast"))], wd, nproc=1)
        if r["s"][0] != "ok":
            raise Invalid("suite grammar not read by the front end")
        with open(os.path.join(wd, "s.ast"), encoding="utf-8") as fh:
            g = gfromast.grammar(rdebug.parse(fh.read()))
    finally:
        shutil.rmtree(wd, ignore_errors=True)
    if gfromast.uses_user_functions(g):
        raise Invalid("suite grammar needs the test crate's user functions")
    if os.path.basename(f) != "grammar.ebnf" or "test" in f:
        return g, text, None, 60000
    # peginator's own grammar: inputs are grammar texts (generated small grammars, their prefixes and mutants)
    import c15
    rnd = random.Random("suite/%s" % seed)
    ins = []
    prof = ggen.profile("core")
    prof["nrules"] = (1, 3)
    prof["depth"] = 2
    n = 30 if tier == "quick" else 150
    for k in range(n):
        gg = ggen.Gen(random.Random("suite/%s/%d" % (seed, k)), prof).grammar()
        t = grender.render(gg, random.Random("suitel/%s/%d" % (seed, k)) if k % 2 else None)
        t = inputs_mod.trunc(t, 260)
        ins.append(t)
        if k % 3 == 0:
            ins += [inputs_mod.trunc(m, 260) for m in c15.mutants(t, rnd, 3)]
        if k % 5 == 0:
            ins.append(t[:rnd.randint(1, max(1, len(t) - 1))])
    ins += ["", ";", "A = 'a';", "@export A = b:B {',' b:B} $;\nB = 'x'..'z';", "# comment only\n", "A = 'a' # c\n;", "@char C = 'a' | 'b'..'c' | D; @char D = '\\u{1F600}';",
            "@extern(a::b -> c::D) E;", "@check(x) @check(y) @string @no_skip_ws @position @memoize W = {!'\\n' char}+;"]
    seen = set()
    ins = [x for x in ins if not (x in seen or seen.add(x))]
    return g, text, {"Grammar": ins}, 120000


def memo_variants(g, rnd):
    """the same grammar with different subsets of (non-leftrec, non-Whitespace-cone) rules memoized"""
    cand = [r.name for r in g.normal_rules() if not r.has("leftrec") and r.name not in ("Whitespace", "Comment")]
    import copy
    lr = set()
    for comp in left_recursive_cycles(g):
        lr.update(comp)
    cand = [c for c in cand if c not in lr]

    def with_memo(names):
        g2 = copy.deepcopy(g)
        for r in g2.normal_rules():
            if r.name in cand:
                r.directives = [d for d in r.directives if d != "memoize"]
                if r.name in names:
                    r.directives.insert(rnd.randint(0, len(r.directives)), "memoize")
        return g2
    out = [("none", with_memo(set())), ("all", with_memo(set(cand)))]
    for k in range(2):
        sub = {c for c in cand if rnd.random() < 0.5}
        out.append(("sub%d" % k, with_memo(sub)))
    return out


def derive_variants(g):
    import copy
    out = [("default", g)]
    g2 = copy.deepcopy(g)
    g2.derives = ["Debug", "Clone", "PartialEq", "Eq"]
    out.append(("eq", g2))
    # derive sets without Clone: grammars with @memoize / @leftrec rules must then be *rejected* by the compiler
    # (documented restriction); whatever it accepts has to compile
    g3 = copy.deepcopy(g)
    g3.derives = ["Debug"]
    out.append(("debugonly", g3))
    # the harness check functions need Debug on the checked value: the empty derive set is only used when no rule has a @check
    if not any(r.kind == "rule" and r.checks() for r in g.rules):
        g4 = copy.deepcopy(g)
        g4.derives = []
        out.append(("none", g4))
    return out


def inline_includes(e, g, stack=()):
    if isinstance(e, Inc):
        r = g.rule(e.rule)
        return Grp(inline_includes(r.body, g, stack + (e.rule,)))
    if isinstance(e, Grp):
        return Grp(inline_includes(e.body, g, stack))
    if isinstance(e, Opt):
        return Opt(inline_includes(e.body, g, stack))
    if isinstance(e, Clo):
        return Clo(inline_includes(e.body, g, stack), e.plus)
    if isinstance(e, Neg):
        return Neg(inline_includes(e.expr, g, stack))
    if isinstance(e, Pos):
        return Pos(inline_includes(e.expr, g, stack))
    if isinstance(e, Seq):
        return Seq([inline_includes(p, g, stack) for p in e.parts])
    if isinstance(e, Cho):
        return Cho([inline_includes(a, g, stack) for a in e.alts])
    return e


def inline_variants(g):
    import copy
    g2 = copy.deepcopy(g)
    for r in g2.normal_rules():
        r.body = inline_includes(r.body, g, ())
    return [("inc", g), ("inl", g2)]


def phaseA_worker(args):
    profile, seed, tier, indices, opts, rundir = args
    build_debug_table_once()
    out = []
    for index in indices:
        try:
            units = make_units(profile, seed, tier, index, opts)
        except Exception as e:  # generator failure: counted, never judged
            out.append({"base": index, "error": repr(e)})
            continue
        for vi, u in enumerate(units):
            uid = index * 8 + vi
            u["uid"] = uid
            gpath = os.path.join(rundir, "g%d.ebnf" % uid)
            with open(gpath, "w", encoding="utf-8") as f:
                f.write(u["text"])
            # rule-permuted twin (same names, other positions), compiled right before the real grammar in the same
            # compiler thread: any state surviving a compile (caches keyed by name / position) then corrupts the real one
            try:
                import copy
                tw = copy.copy(u["grammar"])
                tw.rules = [u["grammar"].rules[0]] + list(reversed(u["grammar"].rules[1:]))
                if len(tw.rules) > 2:
                    with open(os.path.join(rundir, "t%d.ebnf" % uid), "w", encoding="utf-8") as f:
                        f.write(grender.render(tw, None))
            except Exception:
                pass
            # budgets from the reference evaluation
            try:
                types = check_types(u["grammar"])
                m = Model(u["grammar"], types, step_cap=u.get("step_cap") or 20000)
            except Exception as e:
                out.append({"base": index, "error": "types: " + repr(e)})
                continue
            cases = []
            ci = 0
            ndropped = 0
            for rule, ins in u["inputs"].items():
                for s in ins:
                    try:
                        steps = m.parse(rule, s)["steps"]
                    except (Drop, rdebug.Unsupported, RecursionError):
                        # too expensive / dynamically ill-formed / unsupported: never run, never judged
                        # (the case index still advances: variants of one grammar are aligned by it)
                        ndropped += 1
                        ci += 1
                        continue
                    cases.append(("u%dc%d" % (uid, ci), rule, s, min(200 * steps + 100000, max(3000000, 12 * steps))))
                    ci += 1
            u["cases"] = cases
            with open(os.path.join(rundir, "u%d.pkl" % uid), "wb") as f:
                pickle.dump(u, f)
            dv = u["grammar"].derives
            runnable = dv is None or "Debug" in dv
            extra = ""
            if opts.get("assert_types"):
                import typeassert
                extra = typeassert.assertion_module(u["grammar"], dv)
                u["shape"] = hashlib.sha256(repr(typeassert.shape_signature(u["grammar"])).encode()).hexdigest()[:12]
                u["ntriv"] = typeassert.nontrivial(u["grammar"])
            out.append({"uid": uid, "base": index, "variant": u["variant"], "ncases": len(cases) if runnable else 0, "dropped_cases": ndropped,
                        "ctx": u["grammar"].user_ctx, "extra_rust": extra,
                        "derives": "-" if dv is None else ("=" if not dv else ",".join(dv)),
                        "runnable": runnable, "shape": u.get("shape"), "ntriv": u.get("ntriv"),
                        "exports": [(r.name, rule_has_position(r, types)) for r in u["grammar"].exported()] if runnable else []})
    return out


def rule_has_position(r, types):
    return types[r.name].position


_dbg_loaded = False


def build_debug_table_once():
    global _dbg_loaded
    if not _dbg_loaded:
        p = os.path.join(build.WORK, "dbgtable.tsv")
        rdebug.load_table(p)
        _dbg_loaded = True


# ------------------------------------------------------------------------------------------------
def phaseC_worker(args):
    rundir, uids, monitor_opts = args
    build_debug_table_once()
    from monitors import core
    out = []
    for uid in uids:
        with open(os.path.join(rundir, "u%d.pkl" % uid), "rb") as f:
            u = pickle.load(f)
        logp = os.path.join(rundir, "u%d.log.json" % uid)
        if not os.path.exists(logp):
            out.append({"uid": uid, "skipped": "no log", "compile_only": not u.get("cases")})
            continue
        with open(logp) as f:
            obs = json.load(f)
        ui = core.UnitInfo(u["grammar"], step_cap=u.get("step_cap") or 20000)
        counters = {}
        findings = []
        results = {}
        stats = {"accepted": 0, "rejected_progress": 0, "rejected_at0": 0, "cases": 0, "nontrivial": {}}
        samples = []
        case_facts = []
        ind = {}
        indp = os.path.join(rundir, "u%d.ind.json" % uid)
        if os.path.exists(indp):
            with open(indp) as f:
                ind = json.load(f)
        for (cid, rule, inp, budget) in u["cases"]:
            if cid in ind:
                counters["indented_traces_checked"] = counters.get("indented_traces_checked", 0) + 1
                counters["indented_trace_entries"] = counters.get("indented_trace_entries", 0) + ind[cid]["entries"]
                if ind[cid]["problem"]:
                    findings.append({"uid": uid, "case": cid, "rule": rule, "input": inp, "kind": "trace_balance",
                                     "msg": "the log written by IndentedTracer is not properly nested: " + ind[cid]["problem"], "expected": "every entry closed by one exit at its level",
                                     "observed": ind[cid]["problem"]})
            o = obs.get(cid)
            if o is None:
                counters["harness_missing"] = counters.get("harness_missing", 0) + 1
                continue
            o = {m: [fixrec(r) for r in rs] for m, rs in o.items()}
            F, exp, facts = core.compare_case(ui, rule, inp, o, counters)
            stats["cases"] += 1
            r0 = None
            for m in ("noop", "rec", "ind"):
                if m in o and o[m] and o[m][0]["result"]:
                    r0 = o[m][0]["result"]
                    break
            results[cid] = r0
            if monitor_opts.get("keep_facts"):
                case_facts.append({"rule": rule, "input": inp, "facts": {k: v for k, v in facts.items() if k in ("memo_body_evals", "steps_impl", "steps_model")},
                                   "len": len(inp.encode("utf-8")), "ok": bool(r0 and r0[0] == "ok")})
            if r0 and r0[0] == "ok":
                stats["accepted"] += 1
            elif r0 and r0[0] == "err":
                if r0[1] > 0:
                    stats["rejected_progress"] += 1
                else:
                    stats["rejected_at0"] += 1
            nt = nontrivial_flags(ui, rule, inp, o, exp, facts, r0)
            for k, v in nt.items():
                if v:
                    stats["nontrivial"][k] = stats["nontrivial"].get(k, 0) + 1
            for fd in F:
                findings.append({"uid": uid, "case": cid, "rule": rule, "input": inp, **fd.as_dict()})
            if len(samples) < 2 and r0 and (r0[0] == "ok" or (r0[0] == "err" and r0[1] > 0)):
                samples.append({"rule": rule, "input": inp, "observed": list(r0)[:2] + [str(x)[:200] for x in list(r0)[2:]]})
        out.append({"uid": uid, "base": u["base"], "variant": u["variant"], "counters": counters,
                    "findings": cap_per_kind(findings, 12), "nfindings": len(findings), "stats": stats,
                    "results": results if monitor_opts.get("keep_results") else None,
                    "samples": samples, "text": u["text"] if (findings or samples) else None,
                    "case_facts": case_facts, "nrules": len(u["grammar"].normal_rules()),
                    "features": {"memo": ui.has_memo, "lr": ui.has_lr, "userfn": ui.has_userfn,
                                 "ctx": u["grammar"].user_ctx}})
    return out


IND_ENTRY = None


def indented_trace_problem(text):
    """the log written by the library's IndentedTracer for one parse: every `Name?` entry at level k must be closed by exactly
    one `Ok` / `Error:` line at level k+1, in stack order, and nothing may stay open.  Returns (entries, problem or None)"""
    import re
    global IND_ENTRY
    if IND_ENTRY is None:
        IND_ENTRY = (re.compile(r"^((?: {4})*)([A-Za-z_][A-Za-z0-9_#]*)\?$"), re.compile(r"^((?: {4})*)(Ok$|Error: )"), re.compile(r"\x1b\[[0-9;]*m"))
    ent, ext, ansi = IND_ENTRY
    # a user function may start another traced parse (its tracer starts at level 0 again): contexts nest
    ctxs = [[]]
    n = 0
    for raw in text.split("\n"):
        line = ansi.sub("", raw)
        m = ent.match(line)
        if m:
            lvl = len(m.group(1)) // 4
            stack = ctxs[-1]
            if lvl == 0 and stack:
                ctxs.append([])
                stack = ctxs[-1]
            if lvl != len(stack):
                return n, "entry of %s written at level %d while %d entries are open (%s)" % (m.group(2), lvl, len(stack), " > ".join(stack[-4:]))
            stack.append(m.group(2))
            n += 1
            continue
        m = ext.match(line)
        if m:
            lvl = len(m.group(1)) // 4
            stack = ctxs[-1]
            if not stack:
                return n, "an exit line at level %d without an open entry" % lvl
            if lvl != len(stack):
                return n, "exit written at level %d, the innermost open entry %s is at level %d" % (lvl, stack[-1], len(stack) - 1)
            stack.pop()
            if not stack and len(ctxs) > 1:
                ctxs.pop()
    open_ = [x for st in ctxs for x in st]
    if open_:
        return n, "%d entries never got an exit: %s" % (len(open_), " > ".join(open_[:6]))
    return n, None


def capture_indented(rundir, name, binpath, us, per_unit=6, maxbytes=80):
    """a sample of cases is parsed once more with the library's own IndentedTracer and stderr kept"""
    import subprocess
    cases_path = os.path.join(rundir, name + ".ind.tsv")
    sel = {}
    with open(cases_path, "w") as f:
        for u in us:
            with open(os.path.join(rundir, "u%d.pkl" % u["gidx"]), "rb") as pf:
                uu = pickle.load(pf)
            if not u["exports"]:
                continue
            k = 0
            for (cid, rule, inp, budget) in uu["cases"]:
                if len(inp.encode("utf-8")) <= maxbytes and inp:
                    f.write("%s\t%d\t%s\t%d\t%d\t%s\n" % (cid, u["gidx"], rule, 4, budget, build.hexs(inp)))
                    sel[cid] = u["gidx"]
                    k += 1
                    if k >= per_unit:
                        break
    if not sel:
        return
    errp = os.path.join(rundir, name + ".ind.stderr")
    env = dict(build.BASE_ENV, NO_COLOR="1")
    with open(errp, "wb") as ef:
        subprocess.run([binpath, cases_path, os.path.join(rundir, name + ".ind.log")], stdout=subprocess.DEVNULL, stderr=ef, timeout=600, env=env)
    with open(errp, encoding="utf-8", errors="replace") as f:
        chunks = f.read().split("@@CASE ")
    per = {}
    for ch in chunks[1:]:
        cid, _, body = ch.partition("\n")
        cid = cid.strip()
        if cid in sel:
            n, prob = indented_trace_problem(body)
            per.setdefault(sel[cid], {})[cid] = {"entries": n, "problem": prob}
    for uid, v in per.items():
        with open(os.path.join(rundir, "u%d.ind.json" % uid), "w") as f:
            json.dump(v, f)
    for pth in (errp, cases_path, os.path.join(rundir, name + ".ind.log")):
        if os.path.exists(pth):
            os.remove(pth)


def cap_per_kind(findings, n):
    """at most n findings of each kind (a flood of one kind must not crowd out the kinds another property owns)"""
    seen = {}
    out = []
    for f in findings:
        k = f.get("kind")
        seen[k] = seen.get(k, 0) + 1
        if seen[k] <= n:
            out.append(f)
    return out


def fixrec(r):
    r["events"] = [tuple(e) for e in r["events"]]
    r["calls"] = [tuple(tuple(x) if isinstance(x, list) else x for x in c) for c in r["calls"]]
    if r["result"] is not None:
        r["result"] = tuple(r["result"])
    return r


def nontrivial_flags(ui, rule, inp, o, exp, facts, r0):
    """per-property non-triviality rules of DESIGN.md §7a"""
    out = {}
    rec = (o.get("rec") or [None])[0]
    ninv = sum(1 for e in rec["events"] if e[0] == "S") if rec else 0
    progressed = bool(r0) and (r0[0] == "ok" or (r0[0] == "err" and r0[1] > 0))
    c = exp["counters"] if exp else {}
    construct = bool(c) and (c.get("choice_abandoned_after_progress", 0) or c.get("closure_stops", 0) or c.get("la_at_eoi", 0))
    out["C01"] = ninv >= 2 and (progressed or construct)
    out["C08"] = out["C01"] and bool(c) and c.get("ws_skipped", 0) > 0
    out["C02"] = bool(r0) and r0[0] == "ok" and facts.get("nvalues", 0) >= 2
    out["C09"] = bool(r0) and r0[0] == "ok" and facts.get("npos", 0) >= 2
    out["C14"] = bool(exp) and any(cc[0] in ("C", "K", "X") for cc in exp["calls"])
    out["C04"] = any(ord(ch) > 127 for ch in inp) and progressed
    out["C05"] = progressed
    out["C19"] = progressed
    out["C06"] = bool(facts.get("memo_reentered"))
    out["C07"] = bool(c) and (c.get("lr_growths", 0) > 0 or (ui.has_lr and bool(r0) and r0[0] == "err" and r0[1] > 0))
    out["C10"] = bool(r0) and r0[0] == "err" and facts.get("n_fail_offsets", 0) >= 2
    out["C13"] = progressed
    return out


# ------------------------------------------------------------------------------------------------
def run_profile(profile, seed, tier, opts=None, flavor="dev-hooks", modes=7, scale=1.0, force=False):
    """returns the run summary (dict).  opts: generator/variant options."""
    opts = opts or {}
    key = run_key(profile, seed, tier, json.dumps(opts, sort_keys=True) + flavor + str(modes) + str(scale))
    rundir = os.path.join(build.WORK, "runs", key)
    sump = os.path.join(rundir, "summary.json")
    if os.path.exists(sump) and not force and not os.environ.get("VERIF_NOCACHE"):
        with open(sump) as f:
            s = json.load(f)
        s["cached"] = True
        return s
    if os.path.exists(rundir):
        shutil.rmtree(rundir)
    os.makedirs(rundir)
    t0 = time.time()
    t = TIERS[tier]
    ngr = max(4, int(t["grammars"] * scale * opts.get("grammar_scale", 1.0)))
    if profile == "memofam":
        import families
        ngr = families.NFAM
    if profile == "suite":
        ngr = len(suite_files())
    build.debug_table()
    build.tool_cgdrv()
    # ---- phase A
    nw = min(build.NCPU, max(1, ngr // 4))
    chunks = [list(range(ngr))[i::nw] for i in range(nw)]
    units = []
    gen_errors = []
    with ProcessPoolExecutor(max_workers=nw) as ex:
        for res in ex.map(phaseA_worker, [(profile, seed, tier, c, opts, rundir) for c in chunks]):
            for r in res:
                if "error" in r:
                    gen_errors.append(r)
                else:
                    units.append(r)
    units.sort(key=lambda u: u["uid"])
    tA = time.time()
    # ---- phase B: real P-gen
    jobs = [("u%d" % u["uid"], os.path.join(rundir, "g%d.ebnf" % u["uid"]), os.path.join(rundir, "g%d.rs" % u["uid"]),
             u.get("derives", "-"), "vfrt::Ctx" if u["ctx"] else "-",
             os.path.join(rundir, "t%d.ebnf" % u["uid"]) if os.path.exists(os.path.join(rundir, "t%d.ebnf" % u["uid"])) else "-") for u in units]
    gres = build.run_cgdrv("gen", jobs, rundir)
    pgen_fail = []
    good = []
    for u in units:
        r = gres.get("u%d" % u["uid"])
        if r is None or r[0] != "ok":
            pgen_fail.append({"uid": u["uid"], "class": list(r) if r else None})
        else:
            good.append(u)
    # ---- batches
    bs = t["batch"]
    batches = []
    for i in range(0, len(good), bs):
        grp = good[i:i + bs]
        batches.append((build.unique_bin("b%d" % (i // bs)), [{"gidx": u["uid"], "code_path": os.path.join(rundir, "g%d.rs" % u["uid"]),
                                            "exports": u["exports"], "ctx": u["ctx"], "extra_rust": u.get("extra_rust", "")} for u in grp]))
    crate = os.path.join(rundir, "crate")
    tgt = build.tool_vfrt(flavor)
    compile_fail = []
    bins = {}
    allb = {name: units_ for name, units_ in batches}
    remaining = batches
    for attempt in range(3):
        if not remaining:
            break
        build.write_batch_crate(crate, remaining)
        ok, failures, proc = build.build_batch_crate(crate, tgt, build.flavor_flags(flavor))
        bins.update({k: v for k, v in ok.items() if k.startswith("b")})
        # move the executables out of the shared target dir right away
        for k in list(ok):
            if k.startswith("b") and os.path.exists(ok[k]) and not ok[k].startswith(rundir):
                dst = os.path.join(rundir, k + ".bin")
                shutil.move(ok[k], dst)
                bins[k] = dst
        nxt = []
        for name, units_ in remaining:
            if name in bins:
                continue
            fl = failures.get(name, [])
            bad = set()
            for files, msg in fl:
                for fn in files:
                    if fn.startswith("g") and fn.endswith(".rs"):
                        bad.add(int(fn[1:-3]))
            if not bad:
                # cannot attribute: drop the whole batch, reported as harness error
                compile_fail.append({"batch": name, "unattributed": [m for _, m in fl][:2]})
                continue
            for b in bad:
                msgs = [m for files, m in fl if ("g%d.rs" % b) in files]
                compile_fail.append({"uid": b, "messages": msgs[:2]})
            rest = [u for u in units_ if u["gidx"] not in bad]
            if rest:
                nxt.append((name + "r", rest))
                allb[name + "r"] = allb.get(name, units_)
        remaining = nxt
        shutil.rmtree(crate, ignore_errors=True)
    tB = time.time()
    # ---- run
    # rebuild mapping bin -> units actually inside (after retries names end with r..)
    bin_units = {}
    for name in bins:
        bad = {c.get("uid") for c in compile_fail}
        bin_units[name] = [u for u in allb[name] if u["gidx"] not in bad]
    crashes = []

    def run_one(name):
        us = bin_units[name]
        cases_path = os.path.join(rundir, name + ".cases.tsv")
        n = 0
        with open(cases_path, "w") as f:
            for u in us:
                with open(os.path.join(rundir, "u%d.pkl" % u["gidx"]), "rb") as pf:
                    uu = pickle.load(pf)
                if not u["exports"]:
                    continue
                for (cid, rule, inp, budget) in uu["cases"]:
                    f.write("%s\t%d\t%s\t%d\t%d\t%s\n" % (cid, u["gidx"], rule, modes, budget, build.hexs(inp)))
                    n += 1
        logp = os.path.join(rundir, name + ".log")
        if n == 0:
            os.remove(bins[name])
            return [], False, 0
        cr, to = build.run_batch_bin(bins[name], cases_path, logp, n)
        tr = build.rendering_trailer(logp)
        if tr is not None and tr != "same":
            with open(os.path.join(rundir, name + ".render.json"), "w") as f:
                json.dump({"before": tr[0], "after": tr[1]}, f)
        obs = build.parse_log(logp)
        # split per unit
        per = {}
        for cid, v in obs.items():
            uid = int(cid[1:cid.index("c")])
            per.setdefault(uid, {})[cid] = v
        for uid, v in per.items():
            with open(os.path.join(rundir, "u%d.log.json" % uid), "w") as f:
                json.dump(v, f)
        os.remove(logp)
        if opts.get("capture_indented"):
            try:
                capture_indented(rundir, name, bins[name], us)
            except Exception as e:  # the sample is extra evidence; its absence is reported as "not observed"
                with open(os.path.join(rundir, name + ".ind.err"), "w") as f:
                    f.write(repr(e))
        if os.environ.get("VF_KEEP_BINS"):
            try:
                os.makedirs(os.environ["VF_KEEP_BINS"], exist_ok=True)
                if sum(1 for x in os.listdir(os.environ["VF_KEEP_BINS"]) if x.startswith(os.path.basename(rundir))) < 2:
                    shutil.copy(bins[name], os.path.join(os.environ["VF_KEEP_BINS"], os.path.basename(rundir) + "_" + name))
            except OSError:
                pass
        os.remove(bins[name])
        return cr, to, n

    total_cases = 0
    timeouts = 0
    with ThreadPoolExecutor(max_workers=build.NCPU) as ex:
        for cr, to, n in ex.map(run_one, list(bins)):
            crashes += cr
            timeouts += 1 if to else 0
            total_cases += n
    tR = time.time()
    # ---- phase C
    good_uids = [u["gidx"] for us in bin_units.values() for u in us]
    nw = min(build.NCPU, max(1, len(good_uids)))
    chunks = [good_uids[i::nw] for i in range(nw)]
    per_unit = []
    with ProcessPoolExecutor(max_workers=nw) as ex:
        for res in ex.map(phaseC_worker, [(rundir, c, {"keep_results": bool(opts.get("memo_variants") or opts.get("inline_variants")), "keep_facts": profile == "memofam"}) for c in chunks if c]):
            per_unit += res
    per_unit.sort(key=lambda r: r["uid"])
    tC = time.time()
    summary = summarise(profile, seed, tier, opts, units, per_unit, pgen_fail, compile_fail, gen_errors, crashes, timeouts)
    import glob as _glob
    rj = sorted(_glob.glob(os.path.join(rundir, "*.render.json")))
    summary["render_state_changed"] = None
    if rj:
        with open(rj[0]) as f:
            summary["render_state_changed"] = json.load(f)
    bad_uids = {c.get("uid") for c in compile_fail}
    summary["unit_meta"] = [{"uid": u["uid"], "variant": u["variant"], "shape": u.get("shape"), "ntriv": u.get("ntriv"),
                             "compiled": (u["uid"] in set(good_uids)), "runnable": u.get("runnable", True)}
                            for u in units] if opts.get("assert_types") else None
    for c in compile_fail:
        if c.get("uid") is not None:
            try:
                with open(os.path.join(rundir, "g%d.ebnf" % c["uid"]), encoding="utf-8") as f:
                    c["grammar_text"] = f.read()
            except OSError:
                pass
    for c in pgen_fail:
        try:
            with open(os.path.join(rundir, "g%d.ebnf" % c["uid"]), encoding="utf-8") as f:
                c["grammar_text"] = f.read()
        except OSError:
            pass
    summary["compile_fail"] = compile_fail[:40]
    summary["pgen_fail"] = pgen_fail[:40]
    if opts.get("inline_variants"):
        # C13 (i): `>Rule` and the body written in place must declare byte-identical public types
        tfind = []
        tcmp = 0
        by_base = {}
        for u in units:
            by_base.setdefault(u["base"], {})[u["variant"]] = u["uid"]
        for base, vs in by_base.items():
            if "inc" in vs and "inl" in vs:
                secs = {}
                for v in ("inc", "inl"):
                    pth = os.path.join(rundir, "g%d.rs" % vs[v])
                    if os.path.exists(pth):
                        with open(pth, encoding="utf-8") as f:
                            code = f.read()
                        k = code.find("mod peginator_generated")
                        secs[v] = code[:k] if k >= 0 else code
                if len(secs) == 2:
                    tcmp += 1
                    if secs["inc"] != secs["inl"]:
                        i = next((k for k in range(min(len(secs["inc"]), len(secs["inl"]))) if secs["inc"][k] != secs["inl"][k]), 0)
                        with open(os.path.join(rundir, "g%d.ebnf" % vs["inc"]), encoding="utf-8") as f:
                            gt = f.read()
                        tfind.append({"kind": "types_differ", "base": base, "grammar_text": gt,
                                      "msg": "public types of the grammar with >Rule differ from those of the grammar with the body in place",
                                      "expected": secs["inl"][max(0, i - 80):i + 120], "observed": secs["inc"][max(0, i - 80):i + 120]})
                elif len(secs) == 1:
                    with open(os.path.join(rundir, "g%d.ebnf" % vs["inc"]), encoding="utf-8") as f:
                        gt = f.read()
                    tfind.append({"kind": "types_differ", "base": base, "grammar_text": gt,
                                  "msg": "only one of (grammar with >Rule, grammar with the body in place) was accepted by the compiler: %s" % sorted(secs),
                                  "expected": "both or neither", "observed": sorted(secs)})
        # one variant compiles (rustc) and the other does not: the include is not equivalent to its body in place
        bad_uids = {c.get("uid"): c for c in compile_fail if c.get("uid") is not None}
        for base, vs in by_base.items():
            if "inc" in vs and "inl" in vs and ((vs["inc"] in bad_uids) != (vs["inl"] in bad_uids)):
                which = "inc" if vs["inc"] in bad_uids else "inl"
                try:
                    with open(os.path.join(rundir, "g%d.ebnf" % vs["inc"]), encoding="utf-8") as f:
                        gt = f.read()
                except OSError:
                    gt = ""
                msg = (bad_uids[vs[which]].get("messages") or [""])[0][:400]
                tfind.append({"kind": "types_differ", "base": base, "grammar_text": gt,
                              "msg": "generated code of the %s variant does not compile while the other variant's does: %s" % ("include" if which == "inc" else "inlined", msg),
                              "expected": "both compile", "observed": which + " fails"})
        summary["type_section_findings"] = tfind[:20]
        summary["type_sections_compared"] = tcmp
    summary["timing"] = {"A": tA - t0, "B": tB - tA, "run": tR - tB, "C": tC - tR, "total": tC - t0}
    summary["key"] = key
    summary["rundir"] = rundir
    # texts for failing units are kept for replay; bulky per-unit files are removed
    for f in os.listdir(rundir):
        if f.endswith((".log.json", ".tsv")):
            os.remove(os.path.join(rundir, f))
    with open(sump, "w") as f:
        json.dump(summary, f)
    prune_runs()
    return summary


def summarise(profile, seed, tier, opts, units, per_unit, pgen_fail, compile_fail, gen_errors, crashes, timeouts):
    counters = {}
    findings = []
    stats = {"accepted": 0, "rejected_progress": 0, "rejected_at0": 0, "cases": 0, "nontrivial": {}}
    samples = []
    variants = {}
    case_facts_all = []
    for r in per_unit:
        if "skipped" in r:
            counters["units_without_log"] = counters.get("units_without_log", 0) + 1
            continue
        for k, v in r["counters"].items():
            counters[k] = counters.get(k, 0) + v
        for k in ("accepted", "rejected_progress", "rejected_at0", "cases"):
            stats[k] += r["stats"][k]
        for k, v in r["stats"]["nontrivial"].items():
            stats["nontrivial"][k] = stats["nontrivial"].get(k, 0) + v
        for fd in r["findings"]:
            fd = dict(fd)
            fd["grammar_text"] = r["text"]
            fd["variant"] = r["variant"]
            findings.append(fd)
        if r["samples"] and len(samples) < 5:
            s = dict(r["samples"][0])
            s["grammar_text"] = r["text"]
            samples.append(s)
        if r.get("case_facts"):
            case_facts_all.append({"uid": r["uid"], "base": r["base"], "nrules": r.get("nrules"), "text": r["text"], "cases": r["case_facts"]})
        if r.get("results") is not None:
            variants.setdefault(r["base"], {})[r["variant"]] = {"results": r["results"], "text": r["text"], "uid": r["uid"]}
    # metamorphic comparison across variants of the same base grammar (C05 / C13)
    vfind = []
    vstats = {"tuples": 0, "nontrivial": 0}
    for base, vs in variants.items():
        names = sorted(vs)
        if len(names) < 2:
            continue
        ref = vs[names[0]]
        # case ids differ per unit (uid prefix); align by case index
        def by_index(res):
            return {cid[cid.index("c"):]: v for cid, v in res.items()}
        refi = by_index(ref["results"])
        for nm in names[1:]:
            oth = by_index(vs[nm]["results"])
            for ci, rv in refi.items():
                ov = oth.get(ci)
                if rv is None or ov is None:
                    continue
                vstats["tuples"] += 1
                if rv[0] == "ok" or (rv[0] == "err" and rv[1] > 0):
                    vstats["nontrivial"] += 1
                same = (rv[0] == ov[0]) and (rv[0] != "ok" or rv[1] == ov[1])
                if opts.get("inline_variants") and rv[0] == "err" and ov[0] == "err":
                    same = same and rv[1] == ov[1]
                if not same:
                    vfind.append({"kind": "variant", "base": base, "variants": [names[0], nm], "case": ci,
                                  "expected": list(rv)[:3], "observed": list(ov)[:3],
                                  "grammar_text": vs[nm]["text"], "grammar_text_ref": ref["text"],
                                  "msg": "variants %s and %s of the same grammar disagree" % (names[0], nm)})
    if sum(u.get("dropped_cases", 0) for u in units):
        counters["model_drop:case not run (reference evaluation too expensive or ill-formed)"] = sum(u.get("dropped_cases", 0) for u in units)
    return {"profile": profile, "seed": seed, "tier": tier, "opts": opts,
            "units": len(units), "units_run": len([r for r in per_unit if "skipped" not in r]),
            "generator_errors": gen_errors[:5], "n_generator_errors": len(gen_errors),
            "pgen_fail": pgen_fail[:20], "n_pgen_fail": len(pgen_fail),
            "compile_fail": compile_fail[:20], "n_compile_fail": len(compile_fail),
            "crashes": crashes[:20], "timeouts": timeouts,
            "counters": counters, "stats": stats, "findings": cap_per_kind(findings, 40), "nfindings": len(findings),
            "variant_findings": vfind[:50], "variant_stats": vstats, "samples": samples, "case_facts": case_facts_all}


def prune_runs(limit_bytes=3 << 30):
    root = os.path.join(build.WORK, "runs")
    if not os.path.isdir(root):
        return
    ents = []
    for d in os.listdir(root):
        p = os.path.join(root, d)
        size = 0
        for dd, _, fs in os.walk(p):
            for f in fs:
                try:
                    size += os.path.getsize(os.path.join(dd, f))
                except OSError:
                    pass
        ents.append((os.path.getmtime(p), size, p))
    ents.sort(reverse=True)
    tot = 0
    for mt, size, p in ents:
        tot += size
        if tot > limit_bytes:
            shutil.rmtree(p, ignore_errors=True)
