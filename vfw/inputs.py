"""Grammar-directed hostile input generators (DESIGN.md §2.5)."""
import random
from gast import *

WS5 = [" ", "\t", "\n", "\x0c", "\r"]
NEAR_WS = ["\x0b", " ", " "]
LOOKALIKE = {"K": "K", "k": "K", "e": "é", "a": "á", "s": "ß", "E": "É", "A": "Á"}
EXTERN_SAMPLES = {"ext_ident": ["abc", "b", "xyz"], "ext_two": ["xy", "aé", "😀b"], "ext_num": ["12", "7", "4294967299"],
                  "ext_cond": ["b", "d", " ", "2"], "ext_zero": [""], "ext_nested": ["abc", "q", "zz"]}


class Sentences:
    def __init__(self, g: Grammar, rnd: random.Random):
        self.g = g
        self.r = rnd
        self.user_ws = g.rule("Whitespace")

    def ws(self, skipping):
        if not skipping or self.r.random() > 0.25:
            return ""
        if self.user_ws is not None:
            return self.expr(self.user_ws.body, False, 2)[:6]
        return "".join(self.r.choice(WS5) for _ in range(1 if self.r.random() < 0.8 else 2))

    size = 0  # characters emitted for the current sentence (budget: keeps nested closures from exploding)
    LIMIT = 160

    def sentence(self, name, depth):
        self.size = 0
        return self.rule(name, depth)

    def rule(self, name, depth):
        if self.size > self.LIMIT:
            depth = min(depth, -5)
        if name == "char":
            return self.r.choice(self.alphabet())
        r = self.g.rule(name)
        if r is None:
            return " " if name == "Whitespace" and self.r.random() < 0.5 else ""
        if r.kind == "char":
            opts = []
            for p in r.parts:
                if p[0] == "lit":
                    opts.append(p[1])
                elif p[0] == "rng":
                    opts.append(self.in_range(p[1], p[2]))
                else:
                    opts.append(self.rule(p[1], depth - 1))
            return self.r.choice(opts)
        if r.kind == "extern":
            fn = r.func[-1]
            fn = fn[:-1] if fn.endswith("c") else fn
            if fn.startswith("probe_"):
                return ""
            return self.r.choice(EXTERN_SAMPLES.get(fn, ['a']))
        if depth < -6:
            return ""
        return self.expr(r.body, not r.has("no_skip_ws"), depth)

    def in_range(self, a, b):
        if a > b:
            return a
        lo, hi = ord(a), ord(b)
        x = self.r.random()
        if x < 0.25:
            c = lo
        elif x < 0.5:
            c = hi
        else:
            c = self.r.randint(lo, hi)
        if 0xD800 <= c <= 0xDFFF:
            c = lo
        return chr(c)

    _alpha = None

    def alphabet(self):
        if self._alpha is None:
            self._alpha = grammar_alphabet(self.g)
        return self._alpha

    def expr(self, e, sk, depth):
        r = self.r
        if isinstance(e, Lit):
            s = e.s
            if e.insens:
                s = "".join(c.upper() if r.random() < 0.5 else c.lower() for c in s)
            self.size += len(s) + 1
            return self.ws(sk) + s
        if isinstance(e, Rng):
            self.size += 1
            return self.ws(sk) + self.in_range(e.a, e.b)
        if isinstance(e, Eoi):
            return self.ws(sk) if r.random() < 0.3 else ""
        if isinstance(e, Ref):
            return self.ws(sk) + self.rule(e.rule, depth - 1)
        if isinstance(e, Inc):
            t = self.g.rule(e.rule)
            return self.expr(t.body, sk, depth - 1) if depth > -3 else ""
        if isinstance(e, Grp):
            return self.expr(e.body, sk, depth)
        if isinstance(e, Opt):
            return self.expr(e.body, sk, depth) if (depth > 0 and self.size <= self.LIMIT and r.random() < 0.5) else ""
        if isinstance(e, Clo):
            n = r.choice([0, 1, 1, 2, 3, 4]) if (depth > 0 and self.size <= self.LIMIT) else 0
            if e.plus:
                n = max(1, n)
            return "".join(self.expr(e.body, sk, depth - 1) for _ in range(n))
        if isinstance(e, (Neg, Pos)):
            return ""
        if isinstance(e, Seq):
            return "".join(self.expr(p, sk, depth) for p in e.parts)
        if isinstance(e, Cho):
            if depth <= 0:
                # prefer an alternative without rule references
                simple = [a for a in e.alts if not any(isinstance(x, (Ref, Inc)) for x in a.parts)]
                if simple:
                    return self.expr(r.choice(simple), sk, depth)
            return self.expr(r.choice(e.alts), sk, depth)
        raise TypeError(e)


def grammar_alphabet(g: Grammar):
    chars = set("ab")
    for r in g.rules:
        if r.kind == "rule":
            for e in subexprs(r.body):
                if isinstance(e, Lit):
                    chars.update(e.s)
                    if e.insens:
                        chars.update(e.s.upper())
                        chars.update(e.s.lower())
                elif isinstance(e, Rng):
                    for c in (e.a, e.b):
                        chars.add(c)
                        for d in (-1, 1):
                            o = ord(c) + d
                            if 0 <= o <= 0x10FFFF and not (0xD800 <= o <= 0xDFFF):
                                chars.add(chr(o))
        elif r.kind == "char":
            for p in r.parts:
                if p[0] == "lit":
                    chars.add(p[1])
                elif p[0] == "rng":
                    for c in (p[1], p[2]):
                        chars.add(c)
                        for d in (-1, 1):
                            o = ord(c) + d
                            if 0 <= o <= 0x10FFFF and not (0xD800 <= o <= 0xDFFF):
                                chars.add(chr(o))
    return sorted(chars)


def byte_alias(c):
    """characters whose UTF-8 encoding starts with / contains the byte value of ASCII char c,
    or whose low byte equals it - what a broken ASCII fast path would mis-match"""
    out = []
    o = ord(c)
    if o < 0x80:
        for cp in (0x100 + o, 0x400 + o, 0x2000 + o, 0x1F600 + (o & 0x3F)):
            out.append(chr(cp))
        # 2-byte sequence whose continuation byte region maps: U+00C0|.. cannot contain ASCII bytes;
        # instead use code points equal to c + 0x80 / c + 0x100 which alias under truncation to u8
        out.append(chr(o + 0x80))
    return out


SPECIALS = ["\ufeff", "\ufeff", "\ufeff", "\x00", "\u2028", "\u2029", "\u0085", "\r\n", "\r", "\ufffd", "\U0010ffff", "\u200b", "\u200d",
            "\ud7ff", "\ue000", "\x7f", "\x1b", "\u0301", "\ufffe", "\u00a0", "\u3000"]


def trunc(s, maxbytes):
    b = s.encode("utf-8")
    if len(b) <= maxbytes:
        return s
    b = b[:maxbytes]
    while True:
        try:
            return b.decode("utf-8")
        except UnicodeDecodeError:
            b = b[:-1]


def sibling(c, rnd):
    """another character whose UTF-8 encoding starts with the same byte(s) as c's (differs in the low 6 bits, sometimes
    the low 12): what anything keyed by a leading byte would confuse with c"""
    o = ord(c)
    if o < 0x80:
        return c
    for _ in range(8):
        n = (o & ~0x3F) | rnd.randrange(64) if (o < 0x800 or rnd.random() < 0.7) else (o & ~0xFFF) | rnd.randrange(4096)
        if n != o and 0x80 <= n <= 0x10FFFF and not (0xD800 <= n <= 0xDFFF) and len(chr(n).encode("utf-8")) == len(c.encode("utf-8")):
            return chr(n)
    return c


def mutate(s, alpha, rnd):
    if not s:
        return rnd.choice(alpha)
    i = rnd.randrange(len(s))
    x = rnd.random()
    c = s[i]
    if ord(c) >= 0x80 and rnd.random() < 0.3:
        return s[:i] + sibling(c, rnd) + s[i + 1:]
    if x < 0.2:
        return s[:i] + s[i + 1:]
    if x < 0.35:
        return s[:i] + c + s[i:]
    if x < 0.45 and i + 1 < len(s):
        return s[:i] + s[i + 1] + c + s[i + 2:]
    if x < 0.6:
        return s[:i] + rnd.choice(alpha) + s[i + 1:]
    if x < 0.7:
        return s[:i] + (c.lower() if c.isupper() else c.upper()) + s[i + 1:]
    if x < 0.78 and c in LOOKALIKE:
        return s[:i] + LOOKALIKE[c] + s[i + 1:]
    if x < 0.86:
        ba = byte_alias(c)
        if ba:
            return s[:i] + rnd.choice(ba) + s[i + 1:]
    if x < 0.93:
        return s[:i] + rnd.choice(WS5 + NEAR_WS) + s[i:]
    o = ord(c) + rnd.choice([-1, 1])
    if 0 <= o <= 0x10FFFF and not (0xD800 <= o <= 0xDFFF):
        return s[:i] + chr(o) + s[i + 1:]
    return s


def inputs_for(g: Grammar, rule: str, rnd: random.Random, n_sent=10, n_total=40, maxbytes=48, ws_inject=False,
               unicode_heavy=False, long_inputs=False, huge_inputs=False):
    sg = Sentences(g, rnd)
    alpha = sg.alphabet()
    if unicode_heavy:
        alpha = alpha + ["é", "😀", "́", "K", "ß", "߿", "ࠀ", "￿", "\U00010000"]
    out = []
    seen = set()

    def add(s):
        s = trunc(s, maxbytes)
        if s not in seen:
            seen.add(s)
            out.append(s)

    add("")
    sents = []
    for _ in range(n_sent):
        s = sg.sentence(rule, rnd.randint(2, 4))
        sents.append(s)
        add(s)
    # prefixes
    for s in sents[:3]:
        for k in range(1, len(s)):
            if len(out) >= n_total * 2 // 3:
                break
            add(s[:k])
    # characters with a special role somewhere else (byte order mark, NUL, other line separators, the ends of the
    # code space, invisible and combining characters) in front of / behind / inside valid sentences
    for s in sents[:3]:
        sp = rnd.choice(SPECIALS)
        x = rnd.random()
        if x < 0.5:
            add(sp + s)
        elif x < 0.75:
            add(s + sp)
        else:
            k = rnd.randint(0, len(s))
            add(s[:k] + sp + s[k:])
    # trailing garbage / whitespace
    for s in sents[:4]:
        add(s + rnd.choice(alpha))
        add(s + rnd.choice(WS5))
        add(rnd.choice(WS5) + s)
    if ws_inject:
        for s in sents[:4]:
            for i in range(len(s) + 1):
                add(s[:i] + rnd.choice(WS5 + NEAR_WS) + s[i:])
        # the characters a grammar-defined Whitespace rule mentions (skippable ones, comment starters, and characters it
        # forbids through a lookahead - where the skip itself fails) at every position of two sentences
        wsr = g.rule("Whitespace")
        if wsr is not None and wsr.kind == "rule":
            own = sorted({c for e in subexprs(wsr.body) if isinstance(e, Lit) for c in e.s} | {c for e in subexprs(wsr.body) if isinstance(e, Rng) for c in (e.a, e.b)})
            if own:
                for s in sents[:2]:
                    for i in range(len(s) + 1):
                        x = s[:i] + rnd.choice(own) + s[i:]
                        if x not in seen and len(x.encode("utf-8")) <= maxbytes + 8:
                            seen.add(x)
                            out.append(x)
                n_total += 16
        # long gaps (8-24 characters: beyond any word-sized chunk), pure whitespace and with one near-whitespace character
        # at every position of the run
        for s in sents[:3]:
            for _ in range(4):
                i = rnd.randint(0, len(s))
                n = rnd.randint(8, 24)
                run = [rnd.choice(WS5) for _ in range(n)]
                if rnd.random() < 0.7:
                    run[rnd.randrange(n)] = rnd.choice(NEAR_WS)
                x = s[:i] + "".join(run) + s[i:]
                if x not in seen:
                    seen.add(x)
                    out.append(x)
        n_total += 12
    # mutations
    tries = 0
    while len(out) < n_total and tries < n_total * 4:
        tries += 1
        base = rnd.choice(sents)
        m = base
        for _ in range(rnd.choice([1, 1, 2, 3])):
            m = mutate(m, alpha, rnd)
        add(m)
    if long_inputs:
        # inputs well beyond 50 bytes with multi-byte characters everywhere (trace output, long-distance effects)
        wide = alpha + ["é", "😀", "日", "ß", "€", "́"]
        for s in sents[:5]:
            tail = "".join(rnd.choice(wide) for _ in range(rnd.randint(30, 120)))
            x = trunc(s + tail, 200)
            if x not in seen:
                seen.add(x)
                out.append(x)
            y = trunc((s + rnd.choice(["", " ", "é"])) * rnd.randint(3, 12), 200)
            if y not in seen:
                seen.add(y)
                out.append(y)
        n_total += 10
        # a few very long inputs (hundreds of bytes): fixed-size tables / windows keyed by offset only show beyond their size
        for s in sents[:2]:
            if s:
                z = trunc((s + rnd.choice(["", " "])) * (600 // max(1, len(s.encode("utf-8")))), 700)
                if z not in seen:
                    seen.add(z)
                    out.append(z)
        n_total += 2
    if huge_inputs:
        # a few inputs of several KB and beyond 64 KiB (offsets that no longer fit 8 / 16 bits, big caches, long lines
        # and many lines); the reference evaluation drops those that nest deeply or need too many steps
        cands = [x for x in sents if x] or [rnd.choice(alpha)]
        for target in (5000, 70000):
            s0 = rnd.choice(cands)
            sep = rnd.choice(["", " ", "\n", " \n"])
            unit = s0 + sep
            z = unit * (target // max(1, len(unit.encode("utf-8"))) + 1)
            both = (z, z + rnd.choice(alpha) + "\x00")
            for x in (both if target < 10000 else (rnd.choice(both),)):
                if x not in seen:
                    seen.add(x)
                    out.append(x)
        n_total += 4
    # random strings
    for _ in range(max(2, n_total // 10)):
        add("".join(rnd.choice(alpha) for _ in range(rnd.randint(1, 6))))
    # gap characters of character classes: a code point that lies between two literal parts of a @char rule which are one
    # or two code points apart ('a'..'c' | 'e'..'g': 'd') put where a member of that class stood in a sentence.  Own random
    # stream and appended behind the cut, so every other input stays what it was.
    extra = []
    gr = random.Random("class-gaps/%r/%d" % (rule, len(sents[0]) if sents else 0))
    for r in g.rules:
        if r.kind != "char":
            continue
        spans = sorted((ord(p[1]), ord(p[-1])) for p in r.parts if p[0] in ("lit", "rng") and ord(p[1]) <= ord(p[-1]))
        gaps = []
        for (l1, h1), (l2, h2) in zip(spans, spans[1:]):
            if 2 <= l2 - h1 <= 3:
                gaps += [c for c in range(h1 + 1, l2) if not any(a <= c <= b for a, b in spans) and not 0xD800 <= c <= 0xDFFF]
        for c in gaps[:4]:
            for snt in sents[:6]:
                idx = [k for k, ch in enumerate(snt) if any(a <= ord(ch) <= b for a, b in spans)]
                if not idx:
                    continue
                k = gr.choice(idx)
                x = trunc(snt[:k] + chr(c) + snt[k + 1:], maxbytes)
                if x not in seen and len(extra) < 16:
                    seen.add(x)
                    extra.append(x)
    return out[:n_total + 8] + extra
