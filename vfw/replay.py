"""./vf replay <path>: re-evaluate one recorded witness against /repo as it is now."""
import json
import os
import shutil
import sys
import tempfile

import build


def replay(path):
    with open(path) as f:
        w = json.load(f)
    pid = w.get("property")
    print("replaying %s witness: %s" % (pid, w.get("message", "")[:300]))
    if "profile" in w and "uid" in w and "rule" in w:
        return replay_pipeline(w)
    if pid == "C11" and "text" in w:
        import c11
        tgt = os.path.join(build.WORK, "tgt", "pretty")
        p = build.cargo_build(os.path.join(build.rust_dir(), "pretty"), tgt)
        d = tempfile.mkdtemp(prefix="vfr_", dir=build.WORK)
        try:
            cf, of = os.path.join(d, "c.tsv"), os.path.join(d, "o.txt")
            with open(cf, "w") as f:
                f.write("%s\t%d\t%s\n" % (build.hexs(w["text"]), w["position"], build.hexs(w["file"]) if w.get("file") else "-"))
            import subprocess
            subprocess.run([os.path.join(tgt, "debug", "vfpretty"), cf, of], env=build.BASE_ENV)
            line = open(of).read().rstrip("\n")
            v = c11.judge(w["text"], w["position"], w.get("file"), line)
            print("observed:", build.unhex(line[3:]) if line.startswith("ok ") else line)
            print("verdict:", v or "property holds on this witness now")
            return 1 if v else 0
        finally:
            shutil.rmtree(d, ignore_errors=True)
    if pid in ("C15", "C03", "C12", "C17") and w.get("grammar_text") is not None and pid in ("C15",):
        d = tempfile.mkdtemp(prefix="vfr_", dir=build.WORK)
        try:
            gp = os.path.join(d, "g.ebnf")
            with open(gp, "w", encoding="utf-8") as f:
                f.write(w["grammar_text"])
            r = build.run_cgdrv("gen", [("g", gp, "-", w.get("derives", "-"), "-")], d, nproc=1)
            print("library route outcome now:", [r["g"][0]] + [build.unhex(x) if len(x) > 8 else x for x in r["g"][2:]])
            return 1 if r["g"][0] in ("panic", "abort", "timeout") else 0
        finally:
            shutil.rmtree(d, ignore_errors=True)
    print(json.dumps({k: v for k, v in w.items() if k not in ("unit",)}, indent=1)[:6000])
    print("re-run deterministically with: VERIF_SEED=%s ./vf check %s --tier %s" % (w.get("seed"), pid, w.get("tier")))
    return 0


def replay_pipeline(w):
    import pipeline
    import rdebug
    from monitors import core
    build.debug_table()
    pipeline.build_debug_table_once()
    uid = w["uid"]
    units = pipeline.make_units(w["profile"], w["seed"], w["tier"], uid // 8, w.get("opts") or {})
    u = units[uid % 8]
    d = tempfile.mkdtemp(prefix="vfr_", dir=build.WORK)
    if w.get("grammar_text") and u["text"] != w["grammar_text"]:
        # the generator has changed since the witness was written: take the recorded text, read by the real front end
        print("note: the generator no longer reproduces this grammar text (machinery changed); replaying the recorded text")
        import gfromast
        tp = os.path.join(d, "w.ebnf")
        with open(tp, "w", encoding="utf-8") as f:
            f.write(w["grammar_text"])
        r = build.run_cgdrv("ast", [("s", tp, os.path.join(d, "w.ast"))], d, nproc=1)
        if r["s"][0] != "ok":
            print("the recorded grammar text is not accepted by the front end now:", r["s"])
            shutil.rmtree(d, ignore_errors=True)
            return 1
        with open(os.path.join(d, "w.ast"), encoding="utf-8") as f:
            g2 = gfromast.grammar(rdebug.parse(f.read()))
        g2.user_ctx = u["grammar"].user_ctx if "Ctx" not in str(w.get("opts")) else u["grammar"].user_ctx
        g2.user_ctx = any(x.kind == "extern" and x.func[-1].endswith("c") for x in g2.rules) or any(
            x.kind == "rule" and any(c[-1].endswith("c") and c[-1][:-1] in ("chk0", "chk1", "chk2", "chk3") for c in x.checks()) for x in g2.rules)
        u = {"grammar": g2, "text": w["grammar_text"]}
    try:
        g = u["grammar"]
        gp = os.path.join(d, "g.ebnf")
        with open(gp, "w", encoding="utf-8") as f:
            f.write(u["text"])
        code = os.path.join(d, "g.rs")
        dv = g.derives
        r = build.run_cgdrv("gen", [("g", gp, code, "-" if dv is None else ("=" if not dv else ",".join(dv)), "vfrt::Ctx" if g.user_ctx else "-")], d, nproc=1)
        print("grammar:\n" + u["text"])
        if r["g"][0] != "ok":
            print("P-gen outcome:", r["g"])
            return 1
        from gast import check_types
        types = check_types(g)
        unit = {"gidx": 0, "code_path": code, "ctx": g.user_ctx, "exports": [(x.name, types[x.name].position) for x in g.exported()]}
        crate = os.path.join(d, "crate")
        rn = build.unique_bin("r0")
        build.write_batch_crate(crate, [(rn, [unit])])
        ok, failures, proc = build.build_batch_crate(crate, build.tool_vfrt("dev-hooks"), build.flavor_flags("dev-hooks"))
        if rn not in ok:
            print("does not compile:", failures)
            return 1
        cp = os.path.join(d, "cases.tsv")
        with open(cp, "w") as f:
            f.write("c0\t0\t%s\t7\t50000000\t%s\n" % (w["rule"], build.hexs(w["input"])))
        lp = os.path.join(d, "log")
        build.run_batch_bin(ok[rn], cp, lp, 1)
        os.remove(ok[rn])
        obs = build.parse_log(lp).get("c0", {})
        ui = core.UnitInfo(g)
        F, exp, facts = core.compare_case(ui, w["rule"], w["input"], obs, {})
        print("rule %s, input %r" % (w["rule"], w["input"]))
        for m, rs in obs.items():
            print("  observed[%s]: %s" % (m, rs[0]["result"]))
        if exp:
            print("  model: ok=%s end=%s value=%s" % (exp["ok"], exp["end"], rdebug.show(exp["value"]) if exp["value"] else None))
        for fd in F:
            print("  FINDING %s: %s" % (fd.kind, fd.msg))
        same = [fd for fd in F if fd.kind == w.get("kind")]
        print("verdict:", "violation reproduced" if same else ("other findings" if F else "property holds on this witness now"))
        return 1 if same else 0
    finally:
        shutil.rmtree(d, ignore_errors=True)
