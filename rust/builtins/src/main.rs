//! C04 back-stop: drives the runtime's built-in matchers directly with every (parameter, first
//! character) combination of a boundary-heavy table; prints one line per call.
use std::io::Write;
use std::panic::{catch_unwind, AssertUnwindSafe};

use peginator::{
    parse_char, parse_character_literal, parse_character_literal_insensitive, parse_character_range,
    parse_string_literal, parse_string_literal_insensitive, ParseSettings, ParseState,
};

fn firsts() -> Vec<char> {
    let mut v: Vec<char> = (0u32..0x80).filter_map(char::from_u32).collect();
    // one character for every possible UTF-8 lead byte, plus boundary code points
    for cp in [0x80u32, 0xBF, 0xC0, 0xE9, 0xFF, 0x100, 0x141, 0x161, 0x17F, 0x3A9, 0x7FF, 0x800, 0xFFF, 0x1000, 0x2000,
        0x20AC, 0x212A, 0x3000, 0x4E00, 0x8000, 0xD7FF, 0xE000, 0xFFFD, 0xFFFF, 0x10000, 0x1F600, 0x40000, 0x80000,
        0xC0000, 0x100000, 0x10FFFF] {
        if let Some(c) = char::from_u32(cp) {
            v.push(c);
        }
    }
    for lead in 0xC2u32..=0xDF {
        v.push(char::from_u32((lead - 0xC0) << 6 | 0x21).unwrap());
    }
    for lead in 0xE1u32..=0xEC {
        v.push(char::from_u32((lead - 0xE0) << 12 | 0x41).unwrap());
    }
    v
}

fn lit(s: String) -> &'static str {
    Box::leak(s.into_boxed_str())
}

fn main() {
    std::panic::set_hook(Box::new(|_| {}));
    let out = std::io::stdout();
    let mut out = std::io::BufWriter::new(out.lock());
    let settings = ParseSettings::default();
    let fs = firsts();
    let params: Vec<char> = fs.clone();
    let emit = |out: &mut dyn Write, f: &str, p: String, input: &str, r: Result<Option<usize>, ()>| {
        let res = match r {
            Ok(Some(n)) => format!("ok {}", n),
            Ok(None) => "no".to_string(),
            Err(()) => "panic".to_string(),
        };
        writeln!(out, "{}\t{}\t{}\t{}", f, p, input.bytes().map(|b| format!("{:02x}", b)).collect::<String>(), res).unwrap();
    };
    for &ch in &fs {
        for tail in ["", "z", "é"] {
            let input = format!("{}{}", ch, tail);
            let n = input.len();
            for &c in &params {
                let r = catch_unwind(AssertUnwindSafe(|| {
                    parse_character_literal(ParseState::new(&input, &settings), c).ok().map(|o| n - o.state.s().len())
                }))
                .map_err(|_| ());
                emit(&mut out, "lit", format!("{:x}", c as u32), &input, r);
                if c.is_ascii() && c.to_ascii_lowercase() == c {
                    let r = catch_unwind(AssertUnwindSafe(|| {
                        parse_character_literal_insensitive(ParseState::new(&input, &settings), c).ok().map(|o| n - o.state.s().len())
                    }))
                    .map_err(|_| ());
                    emit(&mut out, "ilit", format!("{:x}", c as u32), &input, r);
                }
            }
            let r = catch_unwind(AssertUnwindSafe(|| parse_char(ParseState::new(&input, &settings), ()).ok().map(|o| n - o.state.s().len()))).map_err(|_| ());
            emit(&mut out, "char", "-".into(), &input, r);
        }
    }
    // ranges: boundary pairs
    let ends: Vec<char> = [0x0u32, 0x41, 0x5A, 0x61, 0x7A, 0x7F, 0x80, 0xE9, 0xFF, 0x100, 0x7FF, 0x800, 0xFFFF, 0x10000, 0x10FFFF]
        .iter().filter_map(|c| char::from_u32(*c)).collect();
    for &a in &ends {
        for &b in &ends {
            for &ch in &fs {
                let input = format!("{}z", ch);
                let n = input.len();
                let r = catch_unwind(AssertUnwindSafe(|| {
                    parse_character_range(ParseState::new(&input, &settings), a, b).ok().map(|o| n - o.state.s().len())
                }))
                .map_err(|_| ());
                emit(&mut out, "range", format!("{:x}-{:x}", a as u32, b as u32), &input, r);
            }
        }
    }
    // strings
    let lits = ["ab", "a", "", "é", "aé", "zz", "a\u{212a}", "ß", "K", "k", "ss", "ab\u{20ac}", "\u{1f600}", "az"];
    let lowers = ["ab", "a", "", "zz", "k", "ss", "az", "a-"];
    let inputs = ["", "a", "ab", "AB", "aB", "abc", "aé", "Aé", "é", "É", "a\u{212a}", "ak", "aK", "\u{212a}", "K", "k", "ss", "SS", "ß", "ſs",
        "ab\u{20ac}", "\u{1f600}", "\u{1f600}x", "zz", "zZ", "Zz\u{e9}", "az", "A\u{17f}", "a\u{a1}", "a\u{c1}", "á", "\u{e1}b", "A-", "a\u{2d}", "a\u{ad}"];
    for l in lits {
        for i in inputs {
            let n = i.len();
            let ls = lit(l.to_string());
            let r = catch_unwind(AssertUnwindSafe(|| parse_string_literal(ParseState::new(i, &settings), ls).ok().map(|o| n - o.state.s().len()))).map_err(|_| ());
            emit(&mut out, "str", l.bytes().map(|b| format!("{:02x}", b)).collect::<String>() + "-", i, r);
        }
    }
    for l in lowers {
        for i in inputs {
            let n = i.len();
            let ls = lit(l.to_string());
            let r = catch_unwind(AssertUnwindSafe(|| parse_string_literal_insensitive(ParseState::new(i, &settings), ls).ok().map(|o| n - o.state.s().len()))).map_err(|_| ());
            emit(&mut out, "istr", l.bytes().map(|b| format!("{:02x}", b)).collect::<String>() + "-", i, r);
        }
    }
}
