//! P-gen driver: runs the real grammar compiler (library route) on a list of grammar files,
//! one isolated `catch_unwind` per job, with BEGIN/END markers so that a process-killing
//! event (stack overflow, abort) is attributed to the open job by the orchestrator.

use std::io::Write;
use std::panic::{catch_unwind, AssertUnwindSafe};
use std::str::FromStr;
use std::sync::Mutex;

use peginator_codegen::{CodegenGrammar, CodegenSettings, Grammar};

static PANIC_INFO: Mutex<Option<(String, String)>> = Mutex::new(None);

fn hex(s: &str) -> String {
    if s.is_empty() {
        return "-".into();
    }
    s.bytes().map(|b| format!("{:02x}", b)).collect()
}

fn settings(derives: &str, ctx: &str) -> CodegenSettings {
    let mut s = CodegenSettings::default();
    match derives {
        "-" => {}
        "=" => s.derives = vec![],
        d => s.derives = d.split(',').map(|x| x.to_string()).collect(),
    }
    if ctx != "-" {
        s.set_user_context_type(ctx);
    }
    s
}

enum Outcome {
    Ok(String),
    ParseErr(usize, String),
    GenErr(String),
}

fn compile(text: &str, derives: &str, ctx: &str) -> Outcome {
    match Grammar::from_str(text) {
        Err(e) => Outcome::ParseErr(e.position, format!("{:?}", e.specifics)),
        Ok(g) => match g.generate_code(&settings(derives, ctx)) {
            Ok(ts) => Outcome::Ok(ts.to_string()),
            Err(e) => Outcome::GenErr(format!("{:#}", e)),
        },
    }
}

/// `genmt <jobs> <threads>`: every job is compiled by every thread, all threads running at the same time (barrier start,
/// three rounds: two in step, one with every thread starting at a different job).  One line per (job, thread, round):
/// `MT <id> <thread> <round> <class> <hash of the generated code or message>`.
fn main_threads(jobs: &str, nthreads: usize) {
    use std::collections::hash_map::DefaultHasher;
    use std::hash::{Hash, Hasher};
    use std::sync::{Arc, Barrier};
    std::panic::set_hook(Box::new(|_| {}));
    let list: Arc<Vec<(String, String, String, String)>> = Arc::new(
        jobs.lines()
            .filter(|l| !l.is_empty())
            .map(|l| {
                let f: Vec<&str> = l.split('\t').collect();
                (
                    f[0].to_string(),
                    std::fs::read_to_string(f[1]).expect("grammar file"),
                    f.get(3).copied().unwrap_or("-").to_string(),
                    f.get(4).copied().unwrap_or("-").to_string(),
                )
            })
            .collect(),
    );
    let barrier = Arc::new(Barrier::new(nthreads));
    let mut hs = Vec::new();
    for t in 0..nthreads {
        let list = list.clone();
        let barrier = barrier.clone();
        hs.push(
            std::thread::Builder::new()
                .stack_size(256 << 20)
                .spawn(move || {
                    let mut out = String::new();
                    barrier.wait();
                    for round in 0..3 {
                        for k in 0..list.len() {
                            // rounds 0 and 1: all threads walk the list in step (the same grammar is compiled by several threads at once);
                            // round 2: every thread starts somewhere else
                            let shift = if round == 2 { t * 7 } else { 0 };
                            let (id, text, der, ctx) = &list[(k + shift + round) % list.len()];
                            let r = catch_unwind(AssertUnwindSafe(|| compile(text, der, ctx)));
                            let (class, payload) = match r {
                                Ok(Outcome::Ok(code)) => ("ok", code),
                                Ok(Outcome::ParseErr(pos, spec)) => ("parse_err", format!("{} {}", pos, spec)),
                                Ok(Outcome::GenErr(msg)) => ("gen_err", msg),
                                Err(_) => ("panic", String::new()),
                            };
                            let mut h = DefaultHasher::new();
                            payload.hash(&mut h);
                            out.push_str(&format!("MT {} {} {} {} {:016x} {}\n", id, t, round, class, h.finish(), hex(&payload.chars().take(160).collect::<String>())));
                        }
                    }
                    out
                })
                .unwrap(),
        );
    }
    for h in hs {
        print!("{}", h.join().expect("compile thread died"));
    }
    println!("DONE");
}

fn main() {
    let args: Vec<String> = std::env::args().collect();
    let mode = args[1].as_str();
    let jobs = std::fs::read_to_string(&args[2]).expect("job file");
    let skip: usize = args.get(3).map(|s| s.parse().unwrap()).unwrap_or(0);
    if mode == "genmt" {
        return main_threads(&jobs, skip.max(1));
    }
    std::panic::set_hook(Box::new(|info| {
        let loc = info
            .location()
            .map(|l| format!("{}:{}", l.file(), l.line()))
            .unwrap_or_else(|| "?".into());
        let msg = if let Some(s) = info.payload().downcast_ref::<&str>() {
            s.to_string()
        } else if let Some(s) = info.payload().downcast_ref::<String>() {
            s.clone()
        } else {
            "<non-string panic>".into()
        };
        *PANIC_INFO.lock().unwrap() = Some((loc, msg));
    }));
    let out = std::io::stdout();
    for (i, line) in jobs.lines().enumerate() {
        if i < skip || line.is_empty() {
            continue;
        }
        let f: Vec<&str> = line.split('\t').collect();
        let (id, gpath, opath) = (f[0], f[1], f[2]);
        let derives = f.get(3).copied().unwrap_or("-");
        let ctx = f.get(4).copied().unwrap_or("-");
        let text = std::fs::read_to_string(gpath).expect("grammar file");
        // optional 6th column: a "prelude" grammar compiled first, in the same thread, result discarded.
        // Compiling a rule-permuted twin right before the real grammar exposes state that survives a compile.
        if let Some(pre) = f.get(5) {
            if *pre != "-" && mode == "gen" {
                if let Ok(ptext) = std::fs::read_to_string(pre) {
                    let _ = catch_unwind(AssertUnwindSafe(|| compile(&ptext, derives, ctx)));
                    let _ = PANIC_INFO.lock().unwrap().take();
                }
            }
        }
        {
            let mut o = out.lock();
            writeln!(o, "BEGIN {} {}", id, i).unwrap();
            o.flush().unwrap();
        }
        let t0 = std::time::Instant::now();
        let r = catch_unwind(AssertUnwindSafe(|| match mode {
            "gen" => compile(&text, derives, ctx),
            "tokens" => match text.parse::<proc_macro2::TokenStream>() {
                Ok(ts) => Outcome::Ok(ts.to_string()),
                Err(e) => Outcome::GenErr(format!("{}", e)),
            },
            "ast" => match Grammar::from_str(&text) {
                Ok(g) => Outcome::Ok(format!("{:?}", g)),
                Err(e) => Outcome::ParseErr(e.position, format!("{:?}", e.specifics)),
            },
            _ => panic!("unknown mode"),
        }));
        let us = t0.elapsed().as_micros();
        let mut o = out.lock();
        match r {
            Ok(Outcome::Ok(code)) => {
                if opath != "-" {
                    std::fs::write(opath, &code).expect("write output");
                }
                writeln!(o, "END {} ok {} {}", id, us, code.len()).unwrap();
            }
            Ok(Outcome::ParseErr(pos, spec)) => {
                writeln!(o, "END {} parse_err {} {} {}", id, us, pos, hex(&spec)).unwrap();
            }
            Ok(Outcome::GenErr(msg)) => {
                writeln!(o, "END {} gen_err {} {}", id, us, hex(&msg)).unwrap();
            }
            Err(_) => {
                let (loc, msg) = PANIC_INFO
                    .lock()
                    .unwrap()
                    .take()
                    .unwrap_or_else(|| ("?".into(), "?".into()));
                writeln!(o, "END {} panic {} {} {}", id, us, hex(&loc), hex(&msg)).unwrap();
            }
        }
        o.flush().unwrap();
    }
    println!("DONE");
}
