//! Prints how this toolchain's `Debug` escapes each code point (as a char and inside a str),
//! so that the Python side renders expected values exactly like derive(Debug) does.
fn hex(s: &str) -> String {
    s.bytes().map(|b| format!("{:02x}", b)).collect()
}
fn main() {
    let mut cps: Vec<u32> = (0..0x300).collect();
    for a in std::env::args().skip(1) {
        cps.push(u32::from_str_radix(&a, 16).unwrap());
    }
    for cp in cps {
        if let Some(c) = char::from_u32(cp) {
            let cd = format!("{:?}", c);
            let sd = format!("{:?}", c.to_string());
            println!("{}\t{}\t{}", cp, hex(&cd[1..cd.len() - 1]), hex(&sd[1..sd.len() - 1]));
        }
    }
}
