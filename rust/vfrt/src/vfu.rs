//! User functions referenced from generated grammars (`vfrt::vfu::...`).  All are deterministic and
//! side-effect free apart from logging; the Python reference model mirrors every decision.

use std::fmt::{Debug, Write as _};

use crate::{hex, logline, Ctx};

pub fn fnv1a32(bytes: impl Iterator<Item = u8>) -> u32 {
    let mut h: u32 = 0x811c9dc5;
    for b in bytes {
        h ^= b as u32;
        h = h.wrapping_mul(0x01000193);
    }
    h
}

/// Order-insensitive hash of the "words" of a Debug rendering.
pub fn wordhash(s: &str) -> u32 {
    let mut total: u32 = 0;
    for piece in s.split(|c: char| " ,:(){}[]".contains(c)) {
        if !piece.is_empty() {
            total = total.wrapping_add(fnv1a32(piece.bytes()));
        }
    }
    total
}

pub fn decide(salt: u32, s: &str) -> bool {
    (((wordhash(s) ^ salt).wrapping_mul(2654435761)) >> 16) % 4 != 0
}

fn check_impl<T: Debug>(name: &str, salt: u32, v: &T, ctx: Option<&mut Ctx>) -> bool {
    let d = format!("{:?}", v);
    let ret = decide(salt, &d);
    let c = match ctx {
        Some(c) => {
            c.calls += 1;
            c.calls.to_string()
        }
        None => "-".to_string(),
    };
    logline(|l| {
        let _ = write!(l, "C {} {} {} {}", name, hex(&d), c, ret as u8);
    });
    ret
}

macro_rules! checks {
    ($($name:ident $namec:ident $salt:expr;)*) => {$(
        pub fn $name<T: Debug>(v: &T) -> bool { check_impl(stringify!($name), $salt, v, None) }
        pub fn $namec<T: Debug>(v: &T, ctx: &mut Ctx) -> bool { check_impl(stringify!($name), $salt, v, Some(ctx)) }
    )*};
}
checks! {
    chk0 chk0c 0x1111;
    chk1 chk1c 0x2222;
    chk2 chk2c 0x3333;
    chk3 chk3c 0x4444;
}

pub fn decide_char(salt: u32, c: char) -> bool {
    ((((c as u32).wrapping_mul(2654435761)) ^ salt) >> 7) % 3 != 0
}

macro_rules! cchecks {
    ($($name:ident $salt:expr;)*) => {$(
        pub fn $name(c: char) -> bool {
            let ret = decide_char($salt, c);
            logline(|l| { let _ = write!(l, "K {} {} {}", stringify!($name), c as u32, ret as u8); });
            ret
        }
    )*};
}
cchecks! {
    cchk0 0x51;
    cchk1 0x1234;
}

#[derive(Debug, Clone, PartialEq, Eq)]
pub struct XNum(pub u32);

fn log_x<T: Debug>(name: &str, s: &str, ctx: Option<&mut Ctx>, r: &Result<(T, usize), &'static str>) {
    let c = match ctx {
        Some(c) => {
            c.calls += 1;
            c.calls.to_string()
        }
        None => "-".to_string(),
    };
    logline(|l| match r {
        Ok((v, n)) => {
            let _ = write!(l, "X {} {} {} ok {} {}", name, s.len(), c, n, hex(&format!("{:?}", v)));
        }
        Err(e) => {
            let _ = write!(l, "X {} {} {} err {}", name, s.len(), c, hex(e));
        }
    });
}

fn ident_core(s: &str) -> Result<(&str, usize), &'static str> {
    let n = s.bytes().take_while(|b| b.is_ascii_lowercase()).count();
    if n == 0 {
        Err("expected ident")
    } else {
        Ok((&s[..n], n))
    }
}
fn two_core(s: &str) -> Result<(String, usize), &'static str> {
    let mut it = s.chars();
    match (it.next(), it.next()) {
        (Some(a), Some(b)) => Ok((format!("{a}{b}"), a.len_utf8() + b.len_utf8())),
        _ => Err("expected two chars"),
    }
}
fn zero_core(_s: &str) -> Result<(&'static str, usize), &'static str> {
    Ok(("", 0))
}
fn num_core(s: &str) -> Result<(XNum, usize), &'static str> {
    let n = s.bytes().take_while(|b| b.is_ascii_digit()).count();
    if n == 0 {
        return Err("expected number");
    }
    let mut v: u32 = 0;
    for b in s[..n].bytes() {
        v = v.wrapping_mul(10).wrapping_add((b - b'0') as u32);
    }
    Ok((XNum(v), n))
}
fn cond_core(s: &str) -> Result<(String, usize), &'static str> {
    match s.chars().next() {
        Some(c) if (c as u32) % 2 == 0 => Ok((c.to_string(), c.len_utf8())),
        _ => Err("expected even char"),
    }
}

macro_rules! externs {
    ($($name:ident $namec:ident $core:ident $ty:ty;)*) => {$(
        pub fn $name(s: &str) -> Result<($ty, usize), &'static str> {
            let r = $core(s);
            log_x(stringify!($name), s, None, &r);
            r
        }
        pub fn $namec<'a>(s: &'a str, ctx: &mut Ctx) -> Result<($ty, usize), &'static str> {
            let r = $core(s);
            log_x(stringify!($name), s, Some(ctx), &r);
            r
        }
    )*};
}
pub fn ext_ident(s: &str) -> Result<(&str, usize), &'static str> {
    let r = ident_core(s);
    log_x("ext_ident", s, None, &r);
    r
}
pub fn ext_identc<'a>(s: &'a str, ctx: &mut Ctx) -> Result<(&'a str, usize), &'static str> {
    let r = ident_core(s);
    log_x("ext_ident", s, Some(ctx), &r);
    r
}
/// Like `ext_ident`, but the function itself runs a (simulated) nested *traced* parse on the same thread before it
/// answers - what an extern rule does that parses an embedded sub-language with another peginator grammar while
/// tracing is on.  Re-entrancy must not disturb the outer parse or its trace.
/// A tiny hand-written parser type: what matters is that it is driven through the library's own `PegParser::parse_with_trace`
/// (entry point, tracer construction) from inside a user function of another parse.
struct Inner;
impl peginator::PegParserAdvanced<()> for Inner {
    fn parse_advanced<TT: peginator::ParseTracer>(
        s: &str,
        settings: &peginator::ParseSettings,
        _ctx: (),
    ) -> Result<Self, peginator::ParseError> {
        use peginator::{ParseOk, ParseResult, ParseState};
        let mut tracer = TT::new();
        let st = ParseState::new(s, settings);
        tracer.print_trace_start(&st, "Inner");
        tracer.print_trace_start(&st, "InnerChild");
        let r1: ParseResult<()> = Ok(ParseOk { result: (), state: st.clone() });
        tracer.print_trace_result(&r1);
        tracer.print_trace_result(&r1);
        Ok(Inner)
    }
}

fn thread_cpu_and_state(tid: &str) -> Option<(char, u64)> {
    let st = std::fs::read_to_string(format!("/proc/self/task/{tid}/stat")).ok()?;
    let rest = &st[st.rfind(')')? + 2..];
    let f: Vec<&str> = rest.split(' ').collect();
    Some((f[0].chars().next()?, f[11].parse::<u64>().ok()? + f[12].parse::<u64>().ok()?))
}

fn nested_core(s: &str) -> Result<(&str, usize), &'static str> {
    // a traced parse started from inside a user function (re-entrant use of the library).  It runs on a helper thread
    // while this thread waits for it, so that a nested parse that can never finish (it waits for something only the
    // outer parse can release) is *observed* instead of hanging the harness: if the helper has not answered after 3 s
    // and is asleep with no CPU time consumed between two looks, it is blocked.
    use peginator::PegParser;
    use std::sync::mpsc;
    {
        // ... and a balanced nested trace written on *this* thread through a tracer value of its own (what a nested parser
        // of another grammar does while a rule of the outer parse is still open)
        use peginator::{IndentedTracer, ParseOk, ParseResult, ParseSettings, ParseState, ParseTracer};
        let settings = ParseSettings::default();
        let mut tracer = IndentedTracer::new();
        let st = ParseState::new("inner", &settings);
        tracer.print_trace_start(&st, "Inner");
        tracer.print_trace_start(&st, "InnerChild");
        let r1: ParseResult<()> = Ok(ParseOk { result: (), state: st.clone() });
        tracer.print_trace_result(&r1);
        tracer.print_trace_result(&r1);
    }
    let (tx, rx) = mpsc::channel::<Result<String, bool>>();
    std::thread::spawn(move || {
        let tid = std::fs::read_link("/proc/thread-self")
            .ok()
            .and_then(|p| p.file_name().map(|x| x.to_string_lossy().to_string()))
            .unwrap_or_default();
        let _ = tx.send(Ok(tid));
        let ok = <Inner as PegParser>::parse_with_trace("inner").is_ok();
        let _ = tx.send(Err(ok));
    });
    let tid = match rx.recv() {
        Ok(Ok(t)) => t,
        _ => String::new(),
    };
    match rx.recv_timeout(std::time::Duration::from_secs(3)) {
        Ok(_) => {}
        Err(_) => {
            let a = thread_cpu_and_state(&tid);
            std::thread::sleep(std::time::Duration::from_millis(400));
            let b = thread_cpu_and_state(&tid);
            if let (Some((sa, ca)), Some((sb, cb))) = (a, b) {
                if sa == 'S' && sb == 'S' && ca == cb {
                    crate::logline(|l| l.push_str("D nested-traced-parse-blocked"));
                    panic!("a traced parse started inside a user function of a running parse is blocked (asleep, no CPU progress): the outer parse holds something it needs");
                }
            }
            // busy machine: keep waiting, the verdict stays with the outer watchdog
            let _ = rx.recv();
        }
    }
    ident_core(s)
}
pub fn ext_nested(s: &str) -> Result<(&str, usize), &'static str> {
    let r = nested_core(s);
    log_x("ext_nested", s, None, &r);
    r
}
pub fn ext_nestedc<'a>(s: &'a str, ctx: &mut Ctx) -> Result<(&'a str, usize), &'static str> {
    let r = nested_core(s);
    log_x("ext_nested", s, Some(ctx), &r);
    r
}
externs! {
    ext_two ext_twoc two_core String;
    ext_zero ext_zeroc zero_core &'static str;
    ext_num ext_numc num_core XNum;
    ext_cond ext_condc cond_core String;
}

macro_rules! probes {
    ($($name:ident $namec:ident $id:expr;)*) => {$(
        pub fn $name(s: &str) -> Result<(&'static str, usize), &'static str> {
            logline(|l| { let _ = write!(l, "P {} {}", $id, s.len()); });
            Ok(("", 0))
        }
        pub fn $namec(s: &str, _ctx: &mut Ctx) -> Result<(&'static str, usize), &'static str> {
            logline(|l| { let _ = write!(l, "P {} {}", $id, s.len()); });
            Ok(("", 0))
        }
    )*};
}
probes! {
    probe_0 probe_0c 0; probe_1 probe_1c 1; probe_2 probe_2c 2; probe_3 probe_3c 3;
    probe_4 probe_4c 4; probe_5 probe_5c 5; probe_6 probe_6c 6; probe_7 probe_7c 7;
    probe_8 probe_8c 8; probe_9 probe_9c 9; probe_10 probe_10c 10; probe_11 probe_11c 11;
    probe_12 probe_12c 12; probe_13 probe_13c 13; probe_14 probe_14c 14; probe_15 probe_15c 15;
}
