//! Concurrent driver for C20: the same multiset of parses distributed over threads.

use std::io::Write;
use std::sync::{Arc, Barrier};
use std::time::Instant;

use crate::{install_panic_hook, read_cases, seed_shake, take_log, Dispatch, Mode};

fn xorshift(x: &mut u64) -> u64 {
    *x ^= *x << 13;
    *x ^= *x >> 7;
    *x ^= *x << 17;
    *x
}

/// args: <cases> <out> <nthreads> <seed> <shake-level> <repeat>
pub fn main_threads(dispatch: Dispatch, args: &[String]) {
    let rendering_before = crate::probe_rendering();
    let cases = Arc::new(read_cases(&args[0]));
    let nthreads: usize = args[2].parse().unwrap();
    let seed: u64 = args[3].parse().unwrap();
    let shake: u32 = args[4].parse().unwrap();
    let repeat: usize = args[5].parse().unwrap();
    install_panic_hook();
    // random assignment of (case, repetition) to threads, random order inside each thread
    let mut rng = seed.wrapping_mul(0x9E3779B97F4A7C15) | 1;
    let mut plan: Vec<Vec<usize>> = vec![Vec::new(); nthreads];
    for rep in 0..repeat {
        for i in 0..cases.len() {
            let _ = rep;
            let t = (xorshift(&mut rng) % nthreads as u64) as usize;
            plan[t].push(i);
        }
    }
    for p in plan.iter_mut() {
        for i in (1..p.len()).rev() {
            let j = (xorshift(&mut rng) % (i as u64 + 1)) as usize;
            p.swap(i, j);
        }
    }
    // deep-nesting workloads ask for a larger native stack (VFRT_STACK_MB): the stack is the harness's, not the parser's
    let stack_bytes: usize = std::env::var("VFRT_STACK_MB").ok().and_then(|s| s.parse::<usize>().ok()).map(|mb| mb << 20).unwrap_or(128 << 20);
    let barrier = Arc::new(Barrier::new(nthreads));
    let base = Instant::now();
    let mut handles = Vec::new();
    for (t, p) in plan.into_iter().enumerate() {
        let cases = cases.clone();
        let barrier = barrier.clone();
        let tseed = seed ^ ((t as u64 + 1) << 32);
        handles.push(
            std::thread::Builder::new()
                .stack_size(stack_bytes)
                .spawn(move || {
                    seed_shake(shake, tseed);
                    let mut out = String::new();
                    // each worker parses out of its own reused buffer (see main_seq)
                    let mut buf = String::with_capacity(cases.iter().map(|c| c.input.len()).max().unwrap_or(0) + 16);
                    let mut nth = 0usize;
                    barrier.wait();
                    for i in p {
                        let c = &cases[i];
                        let mode = if c.modes & 2 != 0 { Mode::Rec } else { Mode::Noop };
                        // a different offset inside the buffer for every parse (see main_seq)
                        nth += 1;
                        let off = (nth * 5 + t) % 8;
                        buf.clear();
                        buf.push_str(&"########"[..off]);
                        buf.push_str(&c.input);
                        let t0 = base.elapsed().as_nanos();
                        let ok = dispatch(c.gidx, &c.rule, mode, &buf[off..], c.budget);
                        let t1 = base.elapsed().as_nanos();
                        let log = take_log();
                        out.push_str(&format!("B {} {} {} {} {} {}\n", c.id, mode.name(), i, t, t0, t1));
                        if !ok {
                            out.push_str("R nodispatch\n");
                        }
                        out.push_str(&log);
                    }
                    out
                })
                .unwrap(),
        );
    }
    let mut f = std::fs::File::create(&args[1]).expect("log file");
    for h in handles {
        let s = h.join().expect("worker thread died");
        f.write_all(s.as_bytes()).unwrap();
    }
    let rendering_after = crate::probe_rendering();
    if rendering_after == rendering_before {
        writeln!(f, "Y same").unwrap();
    } else {
        writeln!(f, "Y differs {} {}", crate::hex(&rendering_before), crate::hex(&rendering_after)).unwrap();
    }
    writeln!(f, "DONE").unwrap();
}
