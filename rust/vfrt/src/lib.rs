//! Harness runtime for the /verif monitors: recording tracer, event log, user functions
//! (checks / externs / memo probes), per-case runners.  Everything here observes the real
//! generated parsers from outside; nothing re-implements them.

use std::cell::{Cell, RefCell};
use std::fmt::{Debug, Write as _};
use std::io::Write;
use std::panic::{catch_unwind, AssertUnwindSafe};

pub use peginator;
use peginator::{
    IndentedTracer, NoopTracer, ParseError, ParseResult, ParseSettings, ParseState, ParseTracer,
    PegParserAdvanced, PegPosition,
};

pub mod vfu;

thread_local! {
    pub static LOG: RefCell<String> = const { RefCell::new(String::new()) };
    static PANIC_INFO: RefCell<Option<(String, String)>> = const { RefCell::new(None) };
    /// when > 0 the recording tracer yields / sleeps in its callbacks (C20 interleaving shaker)
    pub static SHAKE: Cell<u32> = const { Cell::new(0) };
    static SHAKE_RNG: Cell<u64> = const { Cell::new(0x9E3779B97F4A7C15) };
}

pub fn hex(s: &str) -> String {
    let mut o = String::with_capacity(s.len() * 2 + 1);
    if s.is_empty() {
        o.push('-');
    }
    for b in s.bytes() {
        let _ = write!(o, "{:02x}", b);
    }
    o
}

pub fn unhex(s: &str) -> String {
    if s == "-" {
        return String::new();
    }
    let b: Vec<u8> = (0..s.len() / 2)
        .map(|i| u8::from_str_radix(&s[2 * i..2 * i + 2], 16).unwrap())
        .collect();
    String::from_utf8(b).expect("input hex must be UTF-8")
}

/// A parse whose event log outgrows this is not terminating in any useful sense (the reference evaluation of the largest
/// admitted case produces a few MB); it is stopped the same way as a parse that runs out of logical steps.
pub const LOG_CAP: usize = 64 << 20;

#[inline]
pub fn logline(f: impl FnOnce(&mut String)) {
    let over = LOG.with(|l| {
        let mut l = l.borrow_mut();
        f(&mut l);
        l.push('\n');
        l.len() > LOG_CAP
    });
    if over {
        LOG.with(|l| {
            let mut l = l.borrow_mut();
            l.truncate(LOG_CAP / 2);
            l.push_str("\nZ truncated\n");
        });
        panic!("step budget exhausted (event log larger than {} bytes)", LOG_CAP);
    }
}

pub fn take_log() -> String {
    LOG.with(|l| std::mem::take(&mut *l.borrow_mut()))
}

fn shake() {
    let lvl = SHAKE.with(|s| s.get());
    if lvl == 0 {
        return;
    }
    let r = SHAKE_RNG.with(|c| {
        let mut x = c.get();
        x ^= x << 13;
        x ^= x >> 7;
        x ^= x << 17;
        c.set(x);
        x
    });
    match r % 16 {
        0..=3 => std::thread::yield_now(),
        4 if lvl > 1 => std::thread::sleep(std::time::Duration::from_micros(r % 97)),
        _ => {}
    }
}

pub fn seed_shake(level: u32, seed: u64) {
    SHAKE.with(|s| s.set(level));
    SHAKE_RNG.with(|c| c.set(seed | 1));
}

/// The recording tracer: every rule entry / exit becomes one log line.
#[derive(Clone, Copy)]
pub struct RecTracer;

impl ParseTracer for RecTracer {
    fn print_informative(&mut self, s: &str) {
        logline(|l| {
            let _ = write!(l, "I {}", hex(s));
        });
    }
    fn print_trace_start(&mut self, state: &ParseState, name: &str) {
        shake();
        logline(|l| {
            let _ = write!(l, "S {} {}", name, state.s().len());
        });
    }
    fn print_trace_result<T>(&mut self, result: &ParseResult<T>) {
        shake();
        logline(|l| match result {
            Ok(ok) => {
                let _ = write!(l, "O {}", ok.state.s().len());
            }
            Err(e) => {
                let _ = write!(l, "E {} {}", e.position, hex(&format!("{:?}", e.specifics)));
            }
        });
    }
    fn new() -> Self {
        RecTracer
    }
}

pub fn install_panic_hook() {
    std::panic::set_hook(Box::new(|info| {
        let loc = info
            .location()
            .map(|l| format!("{}:{}", l.file(), l.line()))
            .unwrap_or_else(|| "?".into());
        let msg = if let Some(s) = info.payload().downcast_ref::<&str>() {
            s.to_string()
        } else if let Some(s) = info.payload().downcast_ref::<String>() {
            s.clone()
        } else {
            "<non-string panic>".into()
        };
        PANIC_INFO.with(|p| *p.borrow_mut() = Some((loc, msg)));
    }));
}

#[derive(Clone, Copy, PartialEq, Eq)]
pub enum Mode {
    Noop,
    Rec,
    Indented,
}

impl Mode {
    pub fn name(self) -> &'static str {
        match self {
            Mode::Noop => "noop",
            Mode::Rec => "rec",
            Mode::Indented => "ind",
        }
    }
}

/// User context handed to grammars compiled with a user context type.
#[derive(Debug, Default)]
pub struct Ctx {
    pub calls: u64,
}

#[cfg(peginator_verif)]
fn fuel_start(budget: u64) {
    peginator::verif::start(budget);
}
#[cfg(peginator_verif)]
fn fuel_steps() -> u64 {
    peginator::verif::steps()
}
#[cfg(not(peginator_verif))]
fn fuel_start(_budget: u64) {}
#[cfg(not(peginator_verif))]
fn fuel_steps() -> u64 {
    0
}

fn finish<T: Debug>(r: std::thread::Result<Result<T, ParseError>>, post: impl FnOnce(&T)) {
    let steps = fuel_steps();
    fuel_start(u64::MAX);
    match r {
        Ok(Ok(v)) => {
            logline(|l| {
                let _ = write!(l, "R ok {}", hex(&format!("{:?}", v)));
            });
            post(&v);
        }
        Ok(Err(e)) => logline(|l| {
            let _ = write!(
                l,
                "R err {} {}",
                e.position,
                hex(&format!("{:?}", e.specifics))
            );
        }),
        Err(_) => {
            let (loc, msg) = PANIC_INFO
                .with(|p| p.borrow_mut().take())
                .unwrap_or_else(|| ("?".into(), "?".into()));
            logline(|l| {
                let _ = write!(l, "R panic {} {}", hex(&loc), hex(&msg));
            });
        }
    }
    logline(|l| {
        let _ = write!(l, "F {}", steps);
    });
}

/// One parse of `input` with exported rule type `T` (no user context).
pub fn run_case<T: PegParserAdvanced<()> + Debug>(
    mode: Mode,
    input: &str,
    budget: u64,
    post: impl FnOnce(&T),
) {
    fuel_start(budget);
    let r = catch_unwind(AssertUnwindSafe(|| match mode {
        // the public convenience entry points are what users call: exercise them
        Mode::Noop => <T as peginator::PegParser>::parse(input),
        Mode::Rec => T::parse_advanced::<RecTracer>(input, &ParseSettings::default(), ()),
        Mode::Indented => <T as peginator::PegParser>::parse_with_trace(input),
    }));
    finish(r, post);
}

/// One parse with a `&mut Ctx` user context.
pub fn run_case_ctx<T: for<'c> PegParserAdvanced<&'c mut Ctx> + Debug>(
    mode: Mode,
    input: &str,
    budget: u64,
    post: impl FnOnce(&T),
) {
    let mut ctx = Ctx::default();
    fuel_start(budget);
    let r = catch_unwind(AssertUnwindSafe(|| match mode {
        Mode::Noop => T::parse_advanced::<NoopTracer>(input, &ParseSettings::default(), &mut ctx),
        Mode::Rec => T::parse_advanced::<RecTracer>(input, &ParseSettings::default(), &mut ctx),
        Mode::Indented => {
            T::parse_advanced::<IndentedTracer>(input, &ParseSettings::default(), &mut ctx)
        }
    }));
    finish(r, post);
    logline(|l| {
        let _ = write!(l, "U {}", ctx.calls);
    });
}

pub fn log_position<T: PegPosition>(v: &T) {
    let p = v.position();
    logline(|l| {
        let _ = write!(l, "T {} {}", p.start, p.end);
    });
}

pub struct Case {
    pub id: String,
    pub gidx: usize,
    pub rule: String,
    pub modes: u32,
    pub budget: u64,
    pub input: String,
}

pub fn read_cases(path: &str) -> Vec<Case> {
    let text = std::fs::read_to_string(path).expect("cases file");
    text.lines()
        .filter(|l| !l.is_empty())
        .map(|l| {
            let f: Vec<&str> = l.split('\t').collect();
            Case {
                id: f[0].to_string(),
                gidx: f[1].parse().unwrap(),
                rule: f[2].to_string(),
                modes: f[3].parse().unwrap(),
                budget: f[4].parse().unwrap(),
                input: unhex(f[5]),
            }
        })
        .collect()
}

pub type Dispatch = fn(usize, &str, Mode, &str, u64) -> bool;

/// Sequential driver: run every case in every requested mode, write the log to `out`.
/// A `B` line is flushed before each parse so that a process-killing event is attributed.
pub fn main_seq(dispatch: Dispatch) {
    let args: Vec<String> = std::env::args().collect();
    if args.len() >= 2 && args[1] == "threads" {
        return threads::main_threads(dispatch, &args[2..]);
    }
    // The whole sequential driver runs on one thread with a large native stack (VFRT_STACK_MB, default 256): debug
    // builds of generated parsers use tens of KB of stack per nesting level, and the stack is the harness's, not the
    // parser's.  The reference evaluation never admits a case that nests more than a couple of hundred rule levels, so
    // a stack overflow that still happens means the real parser recursed far deeper than the grammar asks for.
    let mb = std::env::var("VFRT_STACK_MB").ok().and_then(|s| s.parse::<usize>().ok()).unwrap_or(256);
    if mb > 0 && !cfg!(miri) {
        return std::thread::Builder::new()
            .stack_size(mb << 20)
            .spawn(move || main_seq_inner(dispatch, args))
            .unwrap()
            .join()
            .expect("sequential driver thread died");
    }
    main_seq_inner(dispatch, args)
}

/// What a user sees for one fixed parse error: rendered before the first and after the last parse of a process.  Parsing
/// (with any tracer) must not change it - nothing a parse does may outlive the parse.
pub fn probe_rendering() -> String {
    let e = ParseError {
        position: 4,
        specifics: peginator::ParseErrorSpecifics::ExpectedEoi,
    };
    format!("{}", peginator::PrettyParseError::from_parse_error(&e, "ab\ncd ef\n", Some("probe.ebnf")))
}

fn main_seq_inner(dispatch: Dispatch, args: Vec<String>) {
    let rendering_before = probe_rendering();
    let cases = read_cases(&args[1]);
    let skip: usize = args.get(3).map(|s| s.parse().unwrap()).unwrap_or(0);
    let mut out = std::fs::OpenOptions::new()
        .create(true)
        .append(true)
        .open(&args[2])
        .expect("log file");
    install_panic_hook();
    // Every input is parsed out of ONE reused buffer (like a line buffer in a read loop): consecutive parses see
    // different text at the same address, so hidden state keyed by pointer / surviving a parse shows up as a
    // wrong result on a later input.
    let mut buf = String::with_capacity(cases.iter().map(|c| c.input.len()).max().unwrap_or(0) + 16);
    for (i, c) in cases.iter().enumerate() {
        if i < skip {
            continue;
        }
        // ... and at a different offset inside that buffer each time (0..7 filler bytes in front): the same text is seen
        // at every alignment over the runs of a check, so anything that depends on the address of the input shows up
        // as a result that differs between runs or from the reference evaluation
        let off = (i * 3 + c.input.len()) % 8;
        buf.clear();
        buf.push_str(&"########"[..off]);
        buf.push_str(&c.input);
        let buf = &buf[off..];
        for (bit, mode) in [(1, Mode::Noop), (2, Mode::Rec), (4, Mode::Indented)] {
            if c.modes & bit == 0 {
                continue;
            }
            writeln!(out, "B {} {} {}", c.id, mode.name(), i).unwrap();
            out.flush().unwrap();
            if mode == Mode::Indented {
                // marks the start of this case's trace on stderr (the tracer of the library writes there)
                eprintln!("@@CASE {}", c.id);
            }
            if !dispatch(c.gidx, &c.rule, mode, &buf, c.budget) {
                logline(|l| l.push_str("R nodispatch"));
            }
            let log = take_log();
            out.write_all(log.as_bytes()).unwrap();
        }
    }
    let rendering_after = probe_rendering();
    if rendering_after == rendering_before {
        writeln!(out, "Y same").unwrap();
    } else {
        writeln!(out, "Y differs {} {}", hex(&rendering_before), hex(&rendering_after)).unwrap();
    }
    writeln!(out, "DONE").unwrap();
}

pub mod threads;
