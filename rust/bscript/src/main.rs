//! Build-script helper harness (C15, C16, C18): drives the real `peginator_codegen::Compile`.
//! usage: vfbscript <run|run_exit|dir|dir_exit> <src> <dest|-> <prefix_hex|-> <derives|-|=> <format 0|1> <ctx|-> [order]
use peginator_codegen::Compile;

fn unhex(s: &str) -> String {
    if s == "-" {
        return String::new();
    }
    let b: Vec<u8> = (0..s.len() / 2)
        .map(|i| u8::from_str_radix(&s[2 * i..2 * i + 2], 16).unwrap())
        .collect();
    String::from_utf8(b).unwrap()
}
fn hex(s: &str) -> String {
    if s.is_empty() {
        return "-".into();
    }
    s.bytes().map(|b| format!("{:02x}", b)).collect()
}

fn main() {
    let a: Vec<String> = std::env::args().collect();
    if a.len() >= 2 && a[1] == "serve" {
        // one long-lived process (and thread) for a whole history of runs: each stdin line holds the arguments of one
        // run, tab separated; the outcome is answered on stdout.  What a run leaves behind inside the process meets the
        // next run.
        use std::io::{BufRead, Write};
        let stdin = std::io::stdin();
        for line in stdin.lock().lines() {
            let line = line.unwrap();
            let mut args = vec![a[0].clone()];
            args.extend(line.split('\t').map(|x| x.to_string()));
            let r = std::panic::catch_unwind(|| one_run(&args));
            let out = std::io::stdout();
            let mut o = out.lock();
            match r {
                Ok(s) => writeln!(o, "{}", s).unwrap(),
                Err(_) => writeln!(o, "PANIC").unwrap(),
            }
            o.flush().unwrap();
        }
        return;
    }
    println!("{}", one_run(&a));
}

fn one_run(a: &[String]) -> String {
    let mode = a[1].as_str();
    let mut c = if mode.starts_with("dir") {
        Compile::directory(&a[2])
    } else {
        Compile::file(&a[2])
    };
    // optional 9th argument: the order in which the builder methods are called (letters o=destination,
    // p=prefix, d=derives, f=format, c=user context); default "opdfc"
    let order = a.get(8).map(|s| s.as_str()).unwrap_or("opdfc").to_string();
    for step in order.chars() {
        match step {
            'o' => {
                if a[3] != "-" {
                    c = c.destination(&a[3]);
                }
            }
            'p' => {
                if a[4] != "-" {
                    c = c.prefix(unhex(&a[4]));
                }
            }
            'd' => match a[5].as_str() {
                "-" => {}
                "=" => c = c.derives(vec![]),
                d => c = c.derives(d.split(',').map(|x| x.to_string()).collect()),
            },
            'f' => {
                if a[6] == "1" {
                    c = c.format();
                }
            }
            'c' => {
                if a[7] != "-" {
                    c = c.user_context_type(&a[7]);
                }
            }
            _ => panic!("bad order letter"),
        }
    }
    if mode.ends_with("_exit") {
        c.run_exit_on_error();
        "RETURNED".to_string()
    } else {
        match c.run() {
            Ok(()) => "OK".to_string(),
            Err(e) => format!("ERR {}", hex(&format!("{:#}", e))),
        }
    }
}
