//! C11 harness: drives the real PrettyParseError::from_parse_error + Display on a list of
//! (text, position, file?) cases; one output line per case.
use std::io::{BufRead, Write};
use std::panic::{catch_unwind, AssertUnwindSafe};

use peginator::{ParseError, ParseErrorSpecifics, PrettyParseError};

fn unhex(s: &str) -> String {
    if s == "-" {
        return String::new();
    }
    let b: Vec<u8> = (0..s.len() / 2)
        .map(|i| u8::from_str_radix(&s[2 * i..2 * i + 2], 16).unwrap())
        .collect();
    String::from_utf8(b).unwrap()
}
fn hex(s: &str) -> String {
    if s.is_empty() {
        return "-".into();
    }
    s.bytes().map(|b| format!("{:02x}", b)).collect()
}

fn main() {
    std::panic::set_hook(Box::new(|_| {}));
    let args: Vec<String> = std::env::args().collect();
    let f = std::io::BufReader::new(std::fs::File::open(&args[1]).unwrap());
    let mut out = std::io::BufWriter::new(std::fs::File::create(&args[2]).unwrap());
    for line in f.lines() {
        let line = line.unwrap();
        let p: Vec<&str> = line.split('\t').collect();
        let text = unhex(p[0]);
        let pos: usize = p[1].parse().unwrap();
        let file = if p[2] == "-" { None } else { Some(unhex(p[2])) };
        let r = catch_unwind(AssertUnwindSafe(|| {
            let e = ParseError {
                position: pos,
                specifics: ParseErrorSpecifics::ExpectedEoi,
            };
            let pe = PrettyParseError::from_parse_error(&e, &text, file.as_deref());
            format!("{}", pe)
        }));
        match r {
            Ok(s) => writeln!(out, "ok {}", hex(&s)).unwrap(),
            Err(e) => {
                let msg = if let Some(s) = e.downcast_ref::<&str>() {
                    s.to_string()
                } else if let Some(s) = e.downcast_ref::<String>() {
                    s.clone()
                } else {
                    "?".into()
                };
                writeln!(out, "panic {}", hex(&msg)).unwrap()
            }
        }
    }
}
