#!/bin/bash
# usage: tools/coverage_codegen.sh [ids...]   - which lines of /repo/codegen/src the quick workloads of the named checks execute.
# Builds the P-gen driver with -Cinstrument-coverage (nightly, for llvm-tools), runs the checks with VF_CGDRV_BIN pointing at it,
# merges the profiles and prints per-file line coverage plus the uncovered regions (a to-do list for the generators).
cd "$(dirname "$0")/.."
IDS=${@:-C01 C03 C12 C13 C15 C16}
W=$PWD/.work/cov; rm -rf $W; mkdir -p $W/prof
SYS=$(rustc +nightly --print sysroot)/lib/rustlib/x86_64-unknown-linux-gnu/bin
cp /repo/Cargo.lock rust/cgdrv/Cargo.lock 2>/dev/null
( cd rust/cgdrv && CARGO_TARGET_DIR=$W/tgt RUSTFLAGS="-Cinstrument-coverage" cargo +nightly build --offline 2>&1 | tail -2 )
BIN=$W/tgt/debug/cgdrv
for P in $IDS; do
  LLVM_PROFILE_FILE="$W/prof/cg-%p-%8m.profraw" VF_CGDRV_BIN=$BIN VERIF_NOCACHE=1 ./vf check $P --tier quick 2>&1 | tail -1 | cut -c1-120
done
$SYS/llvm-profdata merge -sparse $W/prof/*.profraw -o $W/cg.profdata
$SYS/llvm-cov report $BIN -instr-profile=$W/cg.profdata --ignore-filename-regex='(registry|rustc|cgdrv/src|generated.rs)' 2>/dev/null | tee $W/report.txt | cut -c1-150
$SYS/llvm-cov show $BIN -instr-profile=$W/cg.profdata --ignore-filename-regex='(registry|rustc|cgdrv/src|generated.rs)' --show-line-counts-or-regions 2>/dev/null > $W/show.txt
echo "full listing: $W/show.txt"
