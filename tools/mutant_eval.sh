#!/bin/bash
# usage: tools/mutant_eval.sh <patch.diff> <tier> <property ids...>
# applies a seeded change to /repo, runs the named checks, restores /repo.  Never commits.
set -u
PATCH="$1"; TIER="$2"; shift 2
cd "$(dirname "$0")/.."
if ! git -C /repo diff --quiet; then echo "/repo has uncommitted changes; refusing"; exit 2; fi
git -C /repo apply "$PATCH" || { echo "patch does not apply"; exit 2; }
trap 'git -C /repo checkout -- . ; git -C /repo clean -fdq -- runtime codegen cli macro 2>/dev/null' EXIT
for P in "$@"; do
  echo "=== $P (mutant: $PATCH)"
  ( time VERIF_SEED=${VERIF_SEED:-0} ./vf check "$P" --tier "$TIER" ) 2>&1 | grep -E "VIOLATION|KNOWN-FINDING|INCONCLUSIVE|HELD|VIOLATED|real|Error|error" | cut -c1-400
done
