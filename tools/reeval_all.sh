#!/bin/bash
# usage: tools/reeval_all.sh [tier] [names...]   - re-evaluate every stored seeded change against the check(s) named in its meta.json
# each change gets its own scratch worktree of /repo under /tmp (removed afterwards); several run in parallel.
TIER=${1:-quick}; shift
cd "$(dirname "$0")/.."
NAMES=${@:-$(ls seeded)}
one() {
  N=$1; TIER=$2
  WT=/tmp/ev_$N
  git -C /repo worktree remove --force $WT >/dev/null 2>&1; rm -rf $WT
  git -C /repo worktree add -q --detach $WT HEAD || { echo "$N: cannot create worktree"; return; }
  cp /repo/Cargo.lock $WT/Cargo.lock
  if ! git -C $WT apply /verif/seeded/$N/patch.diff 2>/dev/null; then echo "$N: PATCH DOES NOT APPLY"; git -C /repo worktree remove --force $WT; return; fi
  CHECKS=$(python3 -c "import json;print(' '.join(json.load(open('/verif/seeded/$N/meta.json'))['caught_by'][:1]))")
  RES=""
  for P in $CHECKS; do
    OUT=$(VERIF_REPO=$WT ./vf check $P --tier $TIER 2>&1)
    V=$(echo "$OUT" | grep -c '^VIOLATION')
    RES="$RES $P:$V"
    [ "$V" = "0" ] && echo "$OUT" | tail -2 | cut -c1-200
  done
  echo "$N ->$RES"
  H=$(python3 -c "import hashlib;print(hashlib.sha256('$WT'.encode()).hexdigest()[:10])")
  rm -rf /verif/.work/alt-$H
  git -C /repo worktree remove --force $WT
}
export -f one
echo $NAMES | tr ' ' '\n' | xargs -P 5 -I{} bash -c "one {} $TIER"
