#!/bin/bash
# usage: tools/reeval_all.sh [tier] [names...]   - re-evaluate every stored seeded change against the check(s) named in its meta.json
# each change gets its own scratch worktree of /repo under /tmp (removed afterwards); several run in parallel.
TIER=${1:-quick}; shift
cd "$(dirname "$0")/.."
NAMES=${@:-$(ls seeded)}
one() {
  N=$1; TIER=$2
  WT=/tmp/ev_$N
  git -C /repo worktree remove --force $WT >/dev/null 2>&1; rm -rf $WT
  git -C /repo worktree add -q --detach $WT HEAD || { echo "$N: cannot create worktree"; return; }
  cp /repo/Cargo.lock $WT/Cargo.lock
  ON=HEAD
  if ! git -C $WT apply --3way /verif/seeded/$N/patch.diff >/dev/null 2>&1 || [ -n "$(git -C $WT diff --name-only --diff-filter=U)" ]; then
    # the change was written against an older commit (before later fix: commits): evaluate it on that commit
    BASE=$(python3 -c "import json;print(json.load(open('/verif/seeded/$N/meta.json')).get('base_commit','HEAD'))")
    git -C $WT checkout -q -f --detach $BASE && git -C $WT reset -q --hard && cp /repo/Cargo.lock $WT/Cargo.lock
    ON=$BASE
    if ! git -C $WT apply /verif/seeded/$N/patch.diff 2>/dev/null; then echo "$N: PATCH DOES NOT APPLY (HEAD or $BASE)"; git -C /repo worktree remove --force $WT; return; fi
  fi
  git -C $WT reset -q 2>/dev/null
  CHECKS=$(python3 -c "import json;print(' '.join(json.load(open('/verif/seeded/$N/meta.json'))['caught_by'][:1]))")
  RES=""
  for P in $CHECKS; do
    OUT=$(VERIF_REPO=$WT ./vf check $P --tier $TIER 2>&1)
    V=$(echo "$OUT" | grep -c '^VIOLATION')
    RES="$RES $P:$V"
    [ "$V" = "0" ] && echo "$OUT" | tail -2 | cut -c1-200
  done
  echo "$N ->$RES (on $ON)"
  H=$(python3 -c "import hashlib;print(hashlib.sha256('$WT'.encode()).hexdigest()[:10])")
  rm -rf /verif/.work/alt-$H
  git -C /repo worktree remove --force $WT
}
export -f one
echo $NAMES | tr ' ' '\n' | xargs -P 5 -I{} bash -c "one {} $TIER"
