#!/bin/bash
# usage: tools/run_all.sh <tier> <seed> [ids...]  - runs every registered check once, prints verdict lines
TIER=${1:-quick}; SEED=${2:-0}; shift 2
IDS=${@:-C01 C02 C03 C04 C05 C06 C07 C08 C09 C10 C11 C12 C13 C14 C15 C16 C17 C18 C19 C20}
cd "$(dirname "$0")/.."
for P in $IDS; do
  S=$(date +%s)
  OUT=$(VERIF_SEED=$SEED ./vf check $P --tier $TIER 2>&1); RC=$?
  E=$(date +%s)
  echo "$P rc=$RC $((E-S))s | $(echo "$OUT" | grep -E "VIOLATION|Traceback|Error" | head -3 | cut -c1-200 | tr '\n' ' ') $(echo "$OUT" | tail -1 | cut -c1-160)"
done
