#!/bin/bash
# usage: tools/mutant_eval_wt.sh <worktree-with-change-applied> <tier> <property ids...>
# runs the named checks against a scratch worktree (VERIF_REPO) instead of patching /repo; several can run at once.
WT="$1"; TIER="$2"; shift 2
cd "$(dirname "$0")/.."
for P in "$@"; do
  OUT=$(VERIF_REPO="$WT" VERIF_SEED=${VERIF_SEED:-0} ./vf check "$P" --tier "$TIER" 2>&1)
  echo "=== $P on $WT: $(echo "$OUT" | grep -c '^VIOLATION') violation line(s); $(echo "$OUT" | tail -1 | cut -c1-120)"
  echo "$OUT" | grep -A1 "^VIOLATION" | head -4 | cut -c1-300
done
