#!/usr/bin/env python3
"""usage: tools/store_seeded.py <ID> <caught-by> <missed-initially:0|1> <note>
copies an agent's confirmed seeded change into /verif/seeded/<ID>/ (patch.diff, demonstration, meta.json)"""
import json, os, shutil, sys
pid, caught, missed, note = sys.argv[1], sys.argv[2], sys.argv[3] == "1", sys.argv[4]
name = sys.argv[5] if len(sys.argv) > 5 else pid
src = "/tmp/seeded%s_%s" % (os.environ.get("SEED_ROUND", ""), pid)
dst = "/verif/seeded/%s" % name
os.makedirs(dst, exist_ok=True)
shutil.copy(os.path.join(src, "patch.diff"), os.path.join(dst, "patch.diff"))
if os.path.isdir(os.path.join(src, "demo")):
    shutil.copytree(os.path.join(src, "demo"), os.path.join(dst, "demo"), dirs_exist_ok=True,
                    ignore=shutil.ignore_patterns("target", "Cargo.lock", "*.log"))
for f in ("run.sh",):
    if os.path.exists(os.path.join(src, f)):
        shutil.copy(os.path.join(src, f), os.path.join(dst, f))
m = {}
try:
    m = json.load(open(os.path.join(src, "meta.json")))
except Exception:
    pass
import subprocess
base = subprocess.run(["git", "-C", "/tmp/wt_%s" % pid, "log", "--format=%h", "-1"], capture_output=True, text=True).stdout.strip()
m.update({"property": pid, "base_commit": base, "origin": "independent sub-agent given only the property text and a scratch worktree (/tmp/wt_%s)" % pid,
          "confirmed_by_me": {"how": "tools/confirm_seeded.sh %s: cargo test --workspace --no-fail-fast --offline in the scratch worktree with regenerated test parsers (all pass); run.sh exits non-zero with the change, 0 after git apply -R" % pid},
          "checks_run": "tools/mutant_eval.sh seeded/%s/patch.diff quick %s (git -C /repo apply; ./vf check; git -C /repo checkout -- .)" % (name, caught),
          "caught_by": caught.split(","), "missed_by_first_version_of_the_check": missed, "note": note})
json.dump(m, open(os.path.join(dst, "meta.json"), "w"), indent=1)
print("stored", dst)
