#!/bin/bash
# usage: tools/coverage_tools.sh  - line coverage of codegen/src/buildscript.rs, header.rs and cli/src/main.rs under the quick
# workloads of C15 C16 C18 (build-script harness and command-line tool built with -Cinstrument-coverage in .work/covrun)
cd "$(dirname "$0")/.."
W=$PWD/.work/covrun; rm -rf $W/prof2; mkdir -p $W/prof2
SYS=$(rustc +nightly --print sysroot)/lib/rustlib/x86_64-unknown-linux-gnu/bin
for P in C15 C16 C18; do
  VF_COV=1 LLVM_PROFILE_FILE="$W/prof2/t-%p-%8m.profraw" ./vf check $P --tier quick 2>&1 | tail -1 | cut -c1-120
done
$SYS/llvm-profdata merge -sparse $W/prof2/*.profraw -o $W/tools.profdata 2>&1 | tail -2
BS=$(ls $W/tgt/bscript/debug/vfbscript $W/tgt/bscript/debug/bscript 2>/dev/null | head -1); CLI=$(ls $W/tgt/cli/debug/peginator-cli 2>/dev/null | head -1)
$SYS/llvm-cov report $BS -object $CLI -instr-profile=$W/tools.profdata --ignore-filename-regex='(registry|rustc|generated.rs)' 2>/dev/null | awk 'NR>2 {printf "%-44s lines %5s missed %5s (%s)\n", $1, $8, $9, $10}' | grep -E "buildscript|header|cli/src|TOTAL"
$SYS/llvm-cov show $BS -object $CLI -instr-profile=$W/tools.profdata --ignore-filename-regex='(registry|rustc|generated.rs)' 2>/dev/null > $W/show_tools.txt
