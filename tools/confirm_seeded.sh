#!/bin/bash
# usage: tools/confirm_seeded.sh <ID>   - re-confirm an agent's seeded change in its scratch worktree
ID="$1"; WT=/tmp/wt_$ID; SD=/tmp/seeded${2:-}_$ID
cd $WT || exit 2
git diff > /tmp/confirm_$ID.diff
if ! diff -q /tmp/confirm_$ID.diff $SD/patch.diff >/dev/null; then echo "NOTE: worktree diff != patch.diff - resetting worktree to patch.diff"; git checkout -- .; git apply $SD/patch.diff; fi
echo "--- tests with change"
rm -f test/src/*/grammar.rs; touch test/build.rs
cargo test --workspace --no-fail-fast --offline 2>&1 | grep -E "^test result" | awk '{p+=$4; f+=$6} END {print "passed",p,"failed",f}'
echo "--- demo with change"; ( bash $SD/run.sh >/tmp/confirm_${ID}_with.log 2>&1; echo "exit $?" )
git apply -R $SD/patch.diff
echo "--- demo without change"; ( bash $SD/run.sh >/tmp/confirm_${ID}_without.log 2>&1; echo "exit $?" )
git apply $SD/patch.diff
git status --short | head -5
