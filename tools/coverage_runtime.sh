#!/bin/bash
# usage: tools/coverage_runtime.sh [ids...]  - which lines of /repo/runtime/src (and of the harness) the generated parsers execute
# under the quick workloads of the named checks.  Everything is rebuilt by the nightly toolchain with -Cinstrument-coverage in a
# separate work area (.work/covrun); evidence and replay files of this run go there too (VF_COV).
cd "$(dirname "$0")/.."
IDS=${@:-C01 C04 C05 C07 C14 C19}
W=$PWD/.work/covrun; rm -rf $W/prof $W/bins; mkdir -p $W/prof $W/bins
SYS=$(rustc +nightly --print sysroot)/lib/rustlib/x86_64-unknown-linux-gnu/bin
for P in $IDS; do
  VF_COV=1 VF_KEEP_BINS=$W/bins LLVM_PROFILE_FILE="$W/prof/rt-%p-%8m.profraw" ./vf check $P --tier quick 2>&1 | tail -1 | cut -c1-120
done
ls $W/prof | wc -l
$SYS/llvm-profdata merge -sparse $W/prof/*.profraw -o $W/rt.profdata 2>&1 | tail -2
OBJS=""; for b in $W/bins/*; do OBJS="$OBJS -object $b"; done
FIRST=$(ls $W/bins/* | head -1)
$SYS/llvm-cov report $FIRST $OBJS -instr-profile=$W/rt.profdata --ignore-filename-regex='(registry|rustc|/g[0-9]+\.rs|main\.rs|codegen/)' 2>/dev/null | tee $W/report_rt.txt | awk 'NR>2 {printf "%-44s lines %5s missed %5s (%s)\n", $1, $8, $9, $10}' | grep -v "^--"
$SYS/llvm-cov show $FIRST $OBJS -instr-profile=$W/rt.profdata --ignore-filename-regex='(registry|rustc|/g[0-9]+\.rs|main\.rs|codegen/)' 2>/dev/null > $W/show_rt.txt
echo "full listing: $W/show_rt.txt"
