#!/bin/bash
# validates MANIFEST.json and every evidence file against the harness schemas
cd "$(dirname "$0")/.."
python3-vt - <<'PY'
import json, jsonschema, glob, sys
ms = json.load(open('/root/.vp/MANIFEST.schema.json')); es = json.load(open('/root/.vp/EVIDENCE.schema.json'))
m = json.load(open('MANIFEST.json')); jsonschema.validate(m, ms)
bad = 0
claimed = {c['property_id'] for c in m['checks']}
na = {c['property_id'] for c in m.get('not_applicable', [])}
props = {json.loads(l)['id'] for l in open('properties.jsonl')}
assert claimed | na == props and not (claimed & na), (props - claimed - na, claimed & na)
for c in m['checks']:
    try:
        e = json.load(open(c['evidence_file'])); jsonschema.validate(e, es)
        print(c['property_id'], e['tier'], 'seed', e['seed'], 'evaluations', e['coverage']['evaluations'], 'nontrivial', e['coverage']['distinct_nontrivial'], 'violations', e.get('violations'), 'wall', e['wall_s'])
    except Exception as ex:
        bad += 1; print(c['property_id'], 'INVALID', str(ex)[:200])
print('manifest ok; %d evidence problems' % bad); sys.exit(1 if bad else 0)
PY
